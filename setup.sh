#!/bin/sh
# Build the checker's environment offline: a venv overlay on /venv (which has urwid's dependencies) + z3-solver
# from the local wheelhouse.  Idempotent; called by ./check on first use as well.
set -e
cd "$(dirname "$0")"
if [ ! -x .venv/bin/python ] || ! .venv/bin/python -c "import z3, wcwidth" >/dev/null 2>&1; then
  rm -rf .venv
  /venv/bin/python -m venv .venv
  SP=$(.venv/bin/python -c "import site; print(site.getsitepackages()[0])")
  printf '/venv/lib/python3.12/site-packages\n' > "$SP/zz_venv_overlay.pth"
  PIP_NO_INDEX=1 .venv/bin/python -m pip install -q --no-index --find-links /opt/veriftools/wheels z3-solver
fi
.venv/bin/python -c "import z3, wcwidth; print('symx env ok: z3', z3.get_version_string())"
