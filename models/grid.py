"""Reference semantics of canvas composition on a plain grid of cells (C02), independent of urwid's shard/cview
machinery.  A reference canvas is (cols, rows, cell) where cell(x, y) -> list of guarded alternatives
(condition, leaf name | None for blank, leaf x, leaf y, attribute-map chain).  x may be symbolic; y is concrete."""
from symx.api import And, Not, Or


class Ref:
    def __init__(self, cols, rows, cell, cursor=None):
        self.cols, self.rows, self.cell, self.cursor = cols, rows, cell, cursor


def leaf(name, cols, rows, cursor=None):
    return Ref(cols, rows, lambda x, y: [(And(x >= 0, x < cols), name, x, y, ())] if 0 <= y < rows else [], cursor)


def blank(cols, rows):
    return Ref(cols, rows, lambda x, y: [(And(x >= 0, x < cols), None, x, y, ())] if 0 <= y < rows else [])


def _shift_cursor(cur, dx, dy, cols, rows):
    if cur is None:
        return None
    return (cur[0] + dx, cur[1] + dy)


def pad_trim_lr(r, left, right):
    """left/right > 0 pad with blanks, < 0 trim"""
    cols = r.cols + left + right

    def cell(x, y):
        out = []
        for c, n, lx, ly, m in r.cell(x - left, y):
            out.append((And(c, x >= 0, x < cols), n, lx, ly, m))
        if 0 <= y < r.rows:
            out.append((And(x >= 0, x < cols, Or(x < left, x >= left + r.cols)), None, x, y, ()))
        return out

    return Ref(cols, r.rows, cell, _shift_cursor(r.cursor, left, 0, cols, r.rows))


def pad_trim_tb(r, top, bottom):
    rows = r.rows + top + bottom

    def cell(x, y):
        if not (0 <= y < rows):
            return []
        yy = y - top
        if 0 <= yy < r.rows:
            return r.cell(x, yy)
        return [(And(x >= 0, x < r.cols), None, x, y, ())]

    return Ref(r.cols, rows, cell, _shift_cursor(r.cursor, 0, top, r.cols, rows))


def trim(r, top, count=None):
    rows = (r.rows - top) if count is None else count
    return Ref(r.cols, rows, lambda x, y: r.cell(x, y + top) if 0 <= y < rows else [], _shift_cursor(r.cursor, 0, -top, r.cols, rows))


def trim_end(r, end):
    rows = r.rows - end
    return Ref(r.cols, rows, lambda x, y: r.cell(x, y) if 0 <= y < rows else [], r.cursor)


def combine(rs, focus=0):
    cols = rs[0].cols
    offs, acc = [], 0
    for r in rs:
        offs.append(acc)
        acc += r.rows

    def cell(x, y):
        for r, o in zip(rs, offs):
            if o <= y < o + r.rows:
                return r.cell(x, y - o)
        return []

    cur = None
    for r, o in zip(rs, offs):
        if r.cursor is not None:
            cur = (r.cursor[0], r.cursor[1] + o)
    return Ref(cols, acc, cell, cur)


def join(items):
    """items: [(ref, width)] - each ref is padded/assumed to `width` columns"""
    offs, acc = [], 0
    for r, w in items:
        offs.append(acc)
        acc = acc + w
    rows = max(r.rows for r, _w in items)

    def cell(x, y):
        out = []
        for (r, w), o in zip(items, offs):
            inside = And(x >= o, x < o + w)
            if 0 <= y < r.rows:
                for c, n, lx, ly, m in r.cell(x - o, y):
                    out.append((And(inside, c), n, lx, ly, m))
                out.append((And(inside, x - o >= r.cols), None, x, y, ()))
            elif 0 <= y < rows:
                out.append((inside, None, x, y, ()))
        return out

    cur = None
    for (r, w), o in zip(items, offs):
        if r.cursor is not None:
            cur = (r.cursor[0] + o, r.cursor[1])
    return Ref(acc, rows, cell, cur)


def overlay(top, bottom, left, topo):
    def cell(x, y):
        out = []
        inbox_y = topo <= y < topo + top.rows
        inx = And(x >= left, x < left + top.cols)
        if inbox_y:
            for c, n, lx, ly, m in top.cell(x - left, y - topo):
                out.append((And(inx, c), n, lx, ly, m))
            for c, n, lx, ly, m in bottom.cell(x, y):
                out.append((And(Not(inx), c), n, lx, ly, m))
        else:
            out += bottom.cell(x, y)
        return out

    cur = (top.cursor[0] + left, top.cursor[1] + topo) if top.cursor is not None else bottom.cursor
    return Ref(bottom.cols, bottom.rows, cell, cur)


def attr_apply(r, mapping):
    key = tuple(sorted(mapping.items(), key=repr))
    return Ref(r.cols, r.rows, lambda x, y: [(c, n, lx, ly, (key,) + m) for c, n, lx, ly, m in r.cell(x, y)], r.cursor)


def apply_chain(chain, a):
    """attribute a after the maps of the chain (outermost first in the tuple, innermost applied first)"""
    for key in reversed(chain):
        d = dict(key)
        a = d.get(a, a)
    return a
