"""Reference model of the VT100/VT102 screen operations named in C15 (written from the DEC/ECMA-48 descriptions, not
from urwid's code).  Plain Python over a grid of cell tokens; a blank cell is the token BLANK."""

BLANK = b" "


class VT:
    def __init__(self, w, h, grid, x, y, top, bot, autowrap=True, insert=False, pending=False):
        self.w, self.h = w, h
        self.g = [list(r) for r in grid]
        self.x, self.y = x, y
        self.top, self.bot = top, bot
        self.aw, self.im, self.pw = autowrap, insert, pending
        self.scrolled_off = []

    def _blank_row(self):
        return [BLANK] * self.w

    def scroll_up(self):
        off = self.g.pop(self.top)
        if self.top == 0:
            self.scrolled_off.append(off)
        self.g.insert(self.bot, self._blank_row())

    def scroll_down(self):
        self.g.pop(self.bot)
        self.g.insert(self.top, self._blank_row())

    def put(self, ch):
        if self.pw and self.aw:
            self.x = 0
            self.lf()
        self.pw = False
        if self.im:
            self.g[self.y].insert(self.x, ch)
            self.g[self.y].pop()
        else:
            self.g[self.y][self.x] = ch
        if self.x == self.w - 1:
            if self.aw:
                self.pw = True
        else:
            self.x += 1

    def cr(self):
        self.x = 0
        self.pw = False

    def lf(self):
        if self.y == self.bot:
            self.scroll_up()
        elif self.y < self.h - 1:
            self.y += 1

    def ri(self):
        if self.y == self.top:
            self.scroll_down()
        elif self.y > 0:
            self.y -= 1

    def bs(self):
        if self.x > 0:
            self.x -= 1

    # cursor addressing (origin mode off, full-screen margins)
    def cup(self, row, col):
        self.y = min(max(row - 1, 0), self.h - 1)
        self.x = min(max(col - 1, 0), self.w - 1)

    def cuu(self, n):
        self.y = max(self.y - max(n, 1), 0)

    def cud(self, n):
        self.y = min(self.y + max(n, 1), self.h - 1)

    def cuf(self, n):
        self.x = min(self.x + max(n, 1), self.w - 1)

    def cub(self, n):
        self.x = max(self.x - max(n, 1), 0)

    def cha(self, col):
        self.x = min(max(col - 1, 0), self.w - 1)

    def vpa(self, row):
        self.y = min(max(row - 1, 0), self.h - 1)

    def el(self, mode):
        r = self.g[self.y]
        rng = range(self.x, self.w) if mode == 0 else range(0, self.x + 1) if mode == 1 else range(self.w)
        for i in rng:
            r[i] = BLANK

    def ed(self, mode):
        if mode == 0:
            self.el(0)
            for yy in range(self.y + 1, self.h):
                self.g[yy] = self._blank_row()
        elif mode == 1:
            for yy in range(0, self.y):
                self.g[yy] = self._blank_row()
            self.el(1)
        else:
            self.g = [self._blank_row() for _ in range(self.h)]

    def ich(self, n):
        n = max(n, 1)
        r = self.g[self.y]
        self.g[self.y] = (r[: self.x] + [BLANK] * n + r[self.x:])[: self.w]

    def dch(self, n):
        n = max(n, 1)
        r = self.g[self.y]
        self.g[self.y] = (r[: self.x] + r[self.x + n:] + [BLANK] * self.w)[: self.w]

    def ech(self, n):
        n = max(n, 1)
        for i in range(self.x, min(self.x + n, self.w)):
            self.g[self.y][i] = BLANK

    def il(self, n):
        n = max(n, 1)
        if not (self.top <= self.y <= self.bot):
            return
        region = self.g[self.y: self.bot + 1]
        region = ([self._blank_row() for _ in range(n)] + region)[: len(region)]
        self.g[self.y: self.bot + 1] = region

    def dl(self, n):
        n = max(n, 1)
        if not (self.top <= self.y <= self.bot):
            return
        region = self.g[self.y: self.bot + 1]
        k = len(region)
        region = (region[n:] + [self._blank_row() for _ in range(k)])[:k]
        self.g[self.y: self.bot + 1] = region

    def decstbm(self, t, b):
        t = t or 1
        b = b or self.h
        if t < b <= self.h:
            self.top, self.bot = t - 1, b - 1
            self.x = self.y = 0
