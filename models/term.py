"""A small VT100/xterm screen model for the byte stream urwid's raw display writes (C04).  Written from the
terminal's point of view (ECMA-48 / xterm ctlseqs), independent of urwid's code.  Cell = (char, sgr token, charset)."""
import re

_CSI = re.compile(r"\x1b\[(\??[0-9;]*)([A-Za-z@])")


class Unknown(Exception):
    pass


class Term:
    def __init__(self, cols, rows):
        self.cols, self.rows = cols, rows
        self.cells = [[(32, None, None) for _ in range(cols)] for _ in range(rows)]
        self.x = self.y = 0
        self.sgr = None  # last SGR token (None = power-on default)
        self.g1_active = False
        self.insert = False
        self.cursor_visible = True
        self.pending_wrap = False
        self.scrolled = False
        self.out_of_screen = False

    def resize(self, cols, rows):
        """the window changed size: contents beyond the new size are cut, new cells blank (xterm keeps the top-left)"""
        cells = [[(32, None, None) for _ in range(cols)] for _ in range(rows)]
        for y in range(min(rows, self.rows)):
            for x in range(min(cols, self.cols)):
                cells[y][x] = self.cells[y][x]
        self.cells, self.cols, self.rows = cells, cols, rows
        self.x, self.y = min(self.x, cols - 1), min(self.y, rows - 1)
        self.pending_wrap = False

    def _put(self, ch):
        if self.pending_wrap:
            # autowrap: the next printable character goes to the start of the next line; on the last line the screen scrolls
            self.pending_wrap = False
            self.x = 0
            if self.y == self.rows - 1:
                self.scrolled = True
                self.cells.pop(0)
                self.cells.append([(32, None, None) for _ in range(self.cols)])
            else:
                self.y += 1
        row = self.cells[self.y]
        cell = (ch, self.sgr, "0" if self.g1_active else None)
        if self.insert:
            row.insert(self.x, cell)
            row.pop()
        else:
            row[self.x] = cell
        if self.x == self.cols - 1:
            self.pending_wrap = True
        else:
            self.x += 1

    def feed(self, tok, sym_chars=None):
        """tok: a concrete str, or (via sym_chars) a list of symbolic character codes"""
        if sym_chars is not None:
            for c in sym_chars:
                self._put(c)
            return
        i = 0
        while i < len(tok):
            m = _CSI.match(tok, i)
            if m:
                p, f = m.groups()
                i = m.end()
                self._csi(p, f)
                continue
            if tok.startswith("\x1b)0", i):  # designate G1 = DEC special graphics
                i += 3
                continue
            c = tok[i]
            i += 1
            if c == "\x08":
                self.pending_wrap = False
                if self.x > 0:
                    self.x -= 1
            elif c == "\r":
                self.x = 0
                self.pending_wrap = False
            elif c == "\n":
                self.pending_wrap = False
                if self.y == self.rows - 1:
                    self.scrolled = True
                else:
                    self.y += 1
            elif c == "\x0e":
                self.g1_active = True
            elif c == "\x0f":
                self.g1_active = False
            elif c == "\x1b":
                raise Unknown("escape " + repr(tok[i - 1:i + 6]))
            elif ord(c) < 32:
                raise Unknown("control " + repr(c))
            else:
                self._put(ord(c))

    def _csi(self, p, f):
        def num(d=1):
            return int(p) if p else d

        if f == "H":
            a = [int(v) if v else 1 for v in p.split(";")] if p else [1, 1]
            a += [1] * (2 - len(a))
            if not (1 <= a[0] <= self.rows and 1 <= a[1] <= self.cols):
                self.out_of_screen = True
            self.y, self.x = min(max(a[0], 1), self.rows) - 1, min(max(a[1], 1), self.cols) - 1
            self.pending_wrap = False
        elif f == "A":
            self.y = max(0, self.y - num())
            self.pending_wrap = False
        elif f == "B":
            self.y = min(self.rows - 1, self.y + num())
            self.pending_wrap = False
        elif f == "C":
            self.x = min(self.cols - 1, self.x + num())
            self.pending_wrap = False
        elif f == "K":
            if p in ("", "0"):
                for xx in range(self.x, self.cols):
                    self.cells[self.y][xx] = (32, self.sgr, None)
            else:
                raise Unknown("EL " + p)
        elif f == "m":
            self.sgr = p
        elif f in "hl" and p == "4":
            self.insert = f == "h"
        elif f in "hl" and p == "?25":
            self.cursor_visible = f == "h"
        elif f in "hl" and p.startswith("?"):
            pass  # other private modes (mouse tracking, alternate buffer...) do not affect the cells
        else:
            raise Unknown("CSI %s %s" % (p, f))
