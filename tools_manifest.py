#!/usr/bin/env python3
"""Regenerate MANIFEST.json from the table below (kept as code so that it always validates)."""
import json, os
ROOT = os.path.dirname(os.path.abspath(__file__))
CLAIMED = {
    "C19": ("model_checking", "5 C19",
            "For every explored path of the real sizing functions the solver shows that no integer input (unbounded sizes, margins, given amounts) "
            "violates the partition/proportion assertions; percentages and weights range over stated finite sets.",
            "z3 is trusted; floats modelled as exact rationals under |operand| < 2^40; abstract children satisfy the widget contract."),
}
CLAIMED["C01"] = ("model_checking", "5 C01",
    "Assume-guarantee over the widget tree: each container/decoration class is executed symbolically with abstract children for unbounded sizes "
    "and options, the solver showing the rendered canvas has exactly the requested size on every path; 20 bundled leaf widgets / thin decorations are rendered with "
    "catalogued parameters at every supported sizing mode, focus and size 1..6/9 (enumerated through the solver; Text/Edit layout on symbolic text is C03/C10).",
    "z3 trusted; children assumed to satisfy the widget contract; TreeWidget, Terminal, PopUpLauncher not covered; two open known findings (Columns of zero-row children, flow Pile whose only non-empty item is a fixed child).")
CLAIMED["C16"] = ("model_checking", "5 C16",
    "Inductive step: one list operation from an arbitrary valid focus on the real MonitoredFocusList, against a built-in list and the statement's focus rule; "
    "the focus is a solver variable, indices/slice fields are enumerated through the solver with a coverage certificate.",
    "z3 trusted; lists of up to 4 (quick) / 5 (thorough) distinct items, slice fields within [-n-2, n+2], steps within +-3.")
CLAIMED["C18"] = ("model_checking", "5 C18",
    "Nearest-colour tables decided by one solver query per table over the whole domain; description templates with symbolic digit characters parsed by the real "
    "code and compared with the documented number arithmetic; finite description domains enumerated through the solver for the string round trip; arbitrary short ASCII strings for rejection.",
    "z3 trusted; tables read from the imported module; non-ASCII descriptions and the 2^24 string round trip outside.")
CLAIMED["C11"] = ("model_checking", "5 C11",
    "The real str_util/util functions run on fully symbolic short texts (every code point / byte value, width table abstracted to any function into {0,1,2}); "
    "additivity, offset-search, next/prev, trim and encoding assertions discharged per path with unbounded target columns.",
    "z3 trusted; text length <= 3 quick / 5 thorough; wcwidth's own tables trusted (urwid delegates to wcwidth).")
CLAIMED["C03"] = ("model_checking", "5 C03",
    "The real StandardTextLayout / Text.rows / Text.pack / Text.render run on fully symbolic short texts with an unbounded symbolic width; order, coverage, fit, "
    "fill, alignment and line-count assertions are discharged on every path.",
    "z3 trusted; text length <= 3 quick / 5 thorough; width table abstracted (any function into {0,1,2} agreeing with wcwidth on ASCII/C0/C1 and a few named characters).")
CLAIMED["C05"] = ("model_checking", "5 C05",
    "The real process_keyqueue / Screen.parse_input (with its partial-code carry-over) run on fully symbolic byte streams; for every cut point the solver shows the "
    "fragmented, the timed-out and the whole delivery yield equal event lists, that nothing is dropped and nothing raises.",
    "z3 trusted; stream length <= 4 (quick) / 6 (thorough); two fragments; double-byte codec results abstracted by uninterpreted functions.")
CLAIMED["C15"] = ("model_checking", "5 C15",
    "Inductive step: every CSI command of the current CSI_COMMANDS table (through parse_csi), every C0 control and printable byte (through addbyte) and resize, from an "
    "arbitrary valid TermCanvas state on small grids; invariants on every path and one-step refinement of an independent VT100 model; arbitrary short byte streams never raise.",
    "z3 trusted; the finite state/parameter space is enumerated through the solver (indices are concretised by list operations), modes stay symbolic; grids <= 3x3 quick / 5x4 thorough; the VT100 model is part of the trusted base.")
CLAIMED["C20"] = ("model_checking", "5 C20",
    "Scrollable.render/_adjust_trim_top run on unbounded symbolic content height, view size and stored position for each pending action; slice start, range and position "
    "arithmetic decided by the solver; ScrollBar parts read from the materialised bar for a symbolic, unbounded position (monotonicity over two copies).",
    "z3 trusted; abstract child; scrollbar views up to 6 rows / 16 content rows.")
CLAIMED["C13"] = ("model_checking", "5 C13",
    "The real SelectEventLoop.run() executes scripted sessions in which alarm delays, the clock and per-iteration descriptor readiness are solver variables "
    "(heapq compares symbolic due times, so every relative order of expiry is a path); ordering, not-before-due, removal, watch, idle and exception obligations are discharged per path.",
    "z3 trusted; the symbolic clock drives the select loop only (<= 3 alarms, 2 descriptors, 8 iterations); select/asyncio/tornado/twisted/trio/zmq are additionally run on the real clock (real.*: "
    "3 alarms 30 ms apart in every order, a pipe, an idle callback, catalogued callback behaviours chosen by the solver; 3 ms tolerance); glib is absent.")
CLAIMED["C14"] = ("model_checking", "5 C14",
    "The real urwid.signals machinery runs histories whose operation kinds and targets are solver-chosen selectors, with handlers that disconnect, connect and re-emit during an emit; "
    "the statement's obligations are checked on every feasible history and the coverage certificate shows the selector space was exhausted.  No arithmetic content (said plainly).",
    "z3 trusted for path feasibility/coverage only; 3 handlers, histories of 3 (quick) / 4 (thorough) operations.")
CLAIMED["C09"] = ("model_checking", "5 C09",
    "Each container/decoration class is executed around an abstract leaf implementing the cursor protocol, for unbounded symbolic sizes, options and event cells under the "
    "fit precondition; the solver shows reported cursor == rendered cursor, mouse events on the leaf's cells reach it with translated coordinates, and cursor moves translate likewise.",
    "z3 trusted; abstract cursor leaf (contract: cursor inside its own area); the leaf's position is read off the rendered cursor, or off the container's own size calculation when the leaf is in an unfocused column / pile item.")
CLAIMED["C08"] = ("model_checking", "5 C08",
    "Inductive step on the real container classes with abstract children whose selectability is symbolic: focus assignment for any integer, every navigation key, contents edits at "
    "symbolic indices, set_focus_path and focused rendering; focus validity, focus-path confinement of keypresses and the selectable-iff-a-child-is rule are discharged per path.",
    "z3 trusted; <= 3 children, 2 levels, child heights <= 2 rows.")
CLAIMED["C10"] = ("model_checking", "5 C10",
    "Inductive step on the real Edit/IntEdit: one key from an arbitrary (text over all code points, cursor offset, width) state, compared with the reference editor rules "
    "(insert, delete, move by one character, display-row moves, signals order and payloads, unused keys returned); rendered cursor equals reported cursor.",
    "z3 trusted; text length <= 2 quick / 3 thorough; widths concretised where layout rows are materialised; width table abstracted.")
CLAIMED["C07"] = ("model_checking", "5 C07",
    "Inductive step on the real ListBox over abstract items with symbolic heights and selectability from an arbitrary (offset, inset, focus) state: each key, mouse event, "
    "focus request, resize and walker edit followed by render; the window read from the canvas shards is shown to be a gap-free slice containing the focus, on every path.",
    "z3 trusted; 3 (quick) / 4 (thorough) items of height <= 3 / 5, boxes <= 5 / 7 rows; representation invariant of DESIGN section 5 re-proved.")
CLAIMED["C17"] = ("model_checking", "5 C17",
    "decompose_tagmarkup on markup trees with symbolic leaves and solver-chosen tags; Text.render with symbolic attribute run lengths and solver-chosen character classes "
    "(per-byte attribute of every output cell compared with the source character's attribute); fill_attr_apply / AttrMap chains; SGR sequences of the real Screen decoded by an SGR reader.",
    "z3 trusted; text length <= 3, width <= 3 (quick) / 5; the SGR decoder in the harness is part of the trusted base.")
CLAIMED["C04"] = ("model_checking", "5 C04",
    "The real Screen.draw_screen runs two-frame histories (optionally clear() / resize between) on canvases whose cells are symbolic bytes with solver-chosen attribute and "
    "charset runs and cursor; the written tokens are interpreted by an independent terminal model and every cell, the cursor and the no-scroll condition are discharged per path.",
    "z3 trusted; screens up to 3x2 (quick) / 4x2, 3x3; models/term.py is part of the trusted base; HTML back-end, wide characters and partial-screen mode outside.")
CLAIMED["C02"] = ("model_checking", "5 C02",
    "Operation trees over combine, join, overlay, pad/trim on every side, trim, trim_end and attribute remapping are executed on the real canvas classes with abstract leaves "
    "and unbounded symbolic widths/offsets; for a symbolic column the located cell (leaf, coordinates, attribute map) is shown equal to the reference grid semantics of models/grid.py.",
    "z3 trusted; rows 1..3; trees of depth <= 2 plus three depth-3 trees (tall canvas beside a stack); real TextCanvas rows with wide characters under trims/overlay (textleaf.*) and content_delta of 11 tree pairs (delta.*) are included; models/grid.py is part of the trusted base.")
CLAIMED["C12"] = ("fault_enumeration", "5 C12",
    "The real MainLoop runs a chained scripted session (keys, mouse, resize by SIGWINCH, alarms, pipe write) on a real pty pair with each bundled event loop that imports here; "
    "the index of the callback invocation that raises, the exception kind and the widget's handled/unhandled answers are solver variables whose whole range is enumerated through the solver "
    "(coverage certificate per instance); the exception contract, delivery order, redraw-before-wait and the terminal's final modes, termios and signal handlers are checked on every path.",
    "z3 only enumerates the fault space (no arithmetic content, said plainly); one session shape; glib loop absent; faults inside MainLoop.start() not injected.")
CLAIMED["C06"] = ("model_checking", "5 C06",
    "Nine real widget trees are driven through histories whose mutation, release and render selectors are solver variables (enumerated through the solver, coverage certificate per instance); "
    "a twin tree receiving the same operations always renders with CanvasCache emptied; content, cursor and rows() of the cached tree must equal the twin's, handed-out canvases must stay unchanged and refuse mutation.  "
    "No arithmetic content (said plainly): the solver enumerates the history space and certifies it was exhausted.",
    "z3 trusted for path feasibility/coverage only; 9 trees, 8-17 mutators each, histories of 2 (quick) / 3 (thorough) mutations; plain attribute assignments without a setter (Padding.left, BoxAdapter.height, Overlay.top_w) are not mutators.")
NOT_YET = {}
TECH = "bounded symbolic execution of the real urwid code (AST-lifted import of /repo) with z3 deciding every path obligation; counterexamples replayed on the un-lifted code"
def main():
    props = [json.loads(l) for l in open(os.path.join(ROOT, "properties.jsonl"))]
    checks, na = [], []
    for p in props:
        pid = p["id"]
        if pid in CLAIMED:
            level, ref, text, note = CLAIMED[pid]
            checks.append({
                "property_id": pid,
                "quick_cmd": "./check %s --tier quick" % pid,
                "thorough_cmd": "./check %s --tier thorough" % pid,
                "evidence_file": "evidence/%s.json" % pid,
                "replay_cmd_template": "./check %s --replay {path}" % pid,
                "engine": "symx",
                "level_claimed": {"category": level, "text": text, "design_ref": "DESIGN.md section " + ref},
                "level_note": note,
                "technique": TECH,
            })
        else:
            na.append({"property_id": pid, "reason": NOT_YET.get(pid, "harness not built yet in this round (design in DESIGN.md section 5); nothing is claimed")})
    man = {
        "version": 1,
        "setup_cmd": "./setup.sh",
        "hooks": {"guard": "URWID_VERIF", "enable": "none needed: the checker lifts /repo/urwid at import time in its own process; no source reads the guard",
                  "baseline_off_cmd": "cd /repo && /venv/bin/python -m pytest -ra -q -p no:cacheprovider --timeout=900 --continue-on-collection-errors",
                  "source_commits": [], "add_only": True},
        "engines": [{"name": "symx", "path": "symx/", "serves_properties": sorted(CLAIMED),
                     "kind_free_text": "dynamic symbolic execution of the real urwid Python code over z3 (solver-based bounded checking)"}],
        "checks": checks,
        "not_applicable": na,
        "notes": "exit 0 = held on everything explored; exit 1 + VIOLATION line = replayed counterexample; exit 2 = harness error / nothing conclusive",
    }
    json.dump(man, open(os.path.join(ROOT, "MANIFEST.json"), "w"), indent=1)
main()
