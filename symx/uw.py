"""urwid support shared by the harnesses: stubs (both modes), abstract widgets, function coverage, replay refinement.

Imported *after* symx.loader.install() so that `import urwid` resolves to the repository working tree (lifted in
symbolic mode, plain in concrete mode)."""
from __future__ import annotations

import builtins
import os
import sys

from . import api
from .api import MODE

_isinstance = builtins.isinstance

import urwid  # noqa: E402
from urwid import canvas as _canvas  # noqa: E402
from urwid import str_util, text_layout, util  # noqa: E402

if MODE == "sym":
    import z3

    from . import core, text
    from .core import Ctx, SymBool, SymInt
    from .text import W, SymText

REPO_URWID = os.path.join(os.environ.get("SYMX_REPO", "/repo"), "urwid") + os.sep

# ------------------------------------------------------------------------------------------------------------
# warnings: a WidgetWarning is urwid's own way of saying "this configuration is not a supported use"; such paths
# are outside every property's quantifier ("valid for a sizing mode the widget reports supporting") and are
# assumed away (as a branch, so coverage stays certifiable).  All other warnings are ignored.

import warnings as _warnings  # noqa: E402

from urwid.widget.widget import WidgetWarning  # noqa: E402

WARN_POLICY = {"widget": "assume"}  # harnesses may set "ignore"


def _warn(message, category=None, *a, **k):
    if _isinstance(category, type) and issubclass(category, WidgetWarning) and WARN_POLICY["widget"] == "assume":
        if MODE == "sym":
            raise core.AssumeFailed()
        raise api.AssumeFailedConc()


_warnings.warn = _warn


# ------------------------------------------------------------------------------------------------------------
# function coverage through sys.monitoring (cheap: each code object is disabled after its first event)

_seen_funcs = set()
_TOOL = 3


def _on_start(code, offset):
    fn = code.co_filename
    if fn.startswith(REPO_URWID):
        _seen_funcs.add("%s:%s" % (fn[len(REPO_URWID):], code.co_qualname))
    return sys.monitoring.DISABLE


def begin_instance():
    _seen_funcs.clear()
    _saved.clear()
    try:
        sys.monitoring.use_tool_id(_TOOL, "symx")
    except ValueError:
        pass
    sys.monitoring.register_callback(_TOOL, sys.monitoring.events.PY_START, _on_start)
    sys.monitoring.set_events(_TOOL, sys.monitoring.events.PY_START)
    sys.monitoring.restart_events()


def end_instance():
    try:
        sys.monitoring.set_events(_TOOL, 0)
        sys.monitoring.free_tool_id(_TOOL)
    except ValueError:
        pass
    restore_stubs()


def functions_seen():
    return sorted(_seen_funcs)


# ------------------------------------------------------------------------------------------------------------
# stubs

_saved = []  # (obj, attr, original)


def _patch(obj, attr, new):
    d = getattr(obj, "__dict__", None)
    _saved.append((obj, attr, d[attr] if d is not None and attr in d else getattr(obj, attr)))
    setattr(obj, attr, new)


def restore_stubs():
    while _saved:
        obj, attr, orig = _saved.pop()
        setattr(obj, attr, orig)


def reset_between_paths():
    restore_stubs()
    close_screens()
    WARN_POLICY["widget"] = "assume"
    _AFlow.MAX_ROWS = None
    try:
        _canvas.CanvasCache.clear()
    except Exception:  # noqa: BLE001
        pass


_real_get_char_width = str_util.get_char_width


def stub_width(I):
    """get_char_width := any function into {0,1,2} that agrees with wcwidth on ASCII / C0 / C1  (symbolic mode);
    the solver model's table (validation); the real function (counterexample replay)."""
    if I.symbolic:
        f = text.sym_char_width
    elif I.real_env:
        return
    else:
        tab = I.func("W", 1)

        def f(ch):
            o = ord(ch)
            if 32 <= o < 127:
                return 1
            if o < 32 or 127 <= o < 160:
                return 0
            n0 = len(I.offtable)
            v = tab(o)
            if len(I.offtable) > n0:  # character not constrained by the model: use the real width
                I.offtable.pop()
                return _real_get_char_width(ch)
            return v

    for m in (str_util, text_layout, util, _canvas):
        if "get_char_width" in m.__dict__:
            _patch(m, "get_char_width", f)
    import urwid.widget.edit as _e  # noqa: F401

    for name, m in list(sys.modules.items()):
        if name.startswith("urwid.") and m is not None and "get_char_width" in getattr(m, "__dict__", {}):
            if m.__dict__["get_char_width"] is _real_get_char_width:
                _patch(m, "get_char_width", f)


def stub_cache(I):
    """CanvasCache.fetch -> None, store -> no-op (the cache is the subject of C06 only)."""
    if not I.symbolic and I.real_env:
        return
    _patch(_canvas.CanvasCache, "fetch", classmethod(lambda cls, *a, **k: None))
    _patch(_canvas.CanvasCache, "store", classmethod(lambda cls, *a, **k: None))


def stub_codecs(I):
    if I.symbolic:
        import codecs

        _patch(util, "codecs", text.CodecsShim(codecs))


def set_encoding(enc):
    util.set_encoding(enc)


# W classes used to make a counterexample replayable with the real width table (checked against wcwidth here)
_W_CLASSES = [(0x2026, 0x2026, 1), (0x300, 0x36F, 0), (0x4E00, 0x9FFF, 2), (0xC0, 0xFF, 1), (0x410, 0x44F, 1), (0xAC00, 0xD7A3, 2), (0x2028, 0x2029, 0), (0x200B, 0x200B, 0)]


def _check_w_classes():
    import wcwidth

    for lo, hi, w in _W_CLASSES + [(0x2026, 0x2026, 1), (32, 126, 1), (0, 31, 0), (127, 159, 0)]:
        for c in range(lo, hi + 1):
            assert builtins.max(wcwidth.wcwidth(chr(c)), 0) == w, (hex(c), w)


_w_checked = False


def refine_for_replay(ctx):
    """Extra constraints that make a counterexample model replayable in the real environment, or None."""
    global _w_checked
    extra = []
    rec = ctx.apps.get("W")
    if rec:
        if not _w_checked:
            _check_w_classes()
            _w_checked = True
        seen = set()
        for (a,) in rec[1]:
            if a.get_id() in seen:
                continue
            seen.add(a.get_id())
            alts = [z3.And(a >= 32, a < 127), z3.Or(a < 32, z3.And(a >= 127, a < 160))]
            for lo, hi, w in _W_CLASSES:
                alts.append(z3.And(a >= lo, a <= hi, W(a) == w))
            extra.append(z3.Or(*alts))
    extra += text.dbcs_refine(ctx)
    alts = [extra]
    for hook in _refiners:
        e = hook(ctx)
        if e:
            alts = [a + list(x) for a in alts for x in e]
    if alts == [[]]:
        return None
    return alts


_refiners = []


# ------------------------------------------------------------------------------------------------------------
# abstract widgets (assume-guarantee children).
#   symbolic mode : rows()/pack() are uninterpreted functions / free symbols (the widget contract only);
#   validation    : the same classes take their numbers from the model's tables;
#   replay        : (real_env) each abstract child is *realised by a bundled widget* whose real rows()/pack() agree
#                   with the model (Divider / empty Pile / Text for flow, SolidFill for box, BigText with a 1xH font
#                   for fixed); a model that no such widget matches is reported as unrealised, never as a violation.


class Unrealised(Exception):
    pass


def _realise_flow(table, selectable):
    entries = [(tuple(k), v) for k, v in table.get("entries", [])]
    vals = {v for _, v in entries}
    if not entries:
        vals = {1}  # rows() was never asked: any widget will do
    if len(vals) == 1:
        k = vals.pop()
        if selectable:
            if k == 0:
                raise Unrealised("selectable flow widget with 0 rows")
            return urwid.Pile([urwid.SelectableIcon("x")] + [urwid.Divider()] * (k - 1)), "Pile([SelectableIcon('x')] + [Divider()]*%d)" % (k - 1)
        if k == 0:
            return urwid.Pile([]), "Pile([])"
        return urwid.Divider(top=k - 1), "Divider(top=%d)" % (k - 1)
    # Text('x'*n, wrap='any'): rows(c) = ceil(n / c)
    lo, hi = 1, 10**9
    for (c, _f), r in entries:
        if r < 1 or c < 1:
            raise Unrealised("non-constant rows with a zero entry")
        lo = builtins.max(lo, (r - 1) * c + 1)
        hi = builtins.min(hi, r * c)
    if lo > hi or lo > 200000:
        raise Unrealised("no Text('x'*n, wrap='any') matches the rows table %r" % (entries,))
    if selectable:
        return urwid.SelectableIcon("x" * lo, 0), "SelectableIcon('x'*%d)" % lo  # SelectableIcon is a Text: wrap default 'space' == 'any' without spaces
    return urwid.Text("x" * lo, wrap="any"), "Text('x'*%d, wrap='any')" % lo


def _record(w, seen):
    """Record the sizes a (real) child is asked for, by wrapping the bound methods on the instance."""
    for meth in ("rows", "render", "pack", "keypress", "mouse_event", "move_cursor_to_coords", "get_cursor_coords"):
        orig = getattr(w, meth, None)
        if orig is None:
            continue

        def wrap(*a, _o=orig, _m=meth, **k):
            size = a[0] if a else k.get("size", ())
            seen.append((_m, size, a[1] if len(a) > 1 else k.get("focus", False)))
            return _o(*a, **k)

        try:
            setattr(w, meth, wrap)
        except AttributeError:
            pass
    w.seen = seen
    return w


def AFlow(I, name, selectable=False):
    if not I.symbolic and I.real_env:
        I.func("R_" + name, 2, bool_args=(1,))
        w, desc = _realise_flow(I.funcs.get("R_" + name, {}), selectable)
        I.note("child_" + name, desc)
        w._r = lambda c, focus, _w=w: _w.rows((c,), focus)
        return _record(w, [])
    return _AFlow(I, name, selectable)


def ABox(I, name, selectable=False):
    if not I.symbolic and I.real_env:
        w = urwid.Filler(urwid.SelectableIcon("x")) if selectable else urwid.SolidFill("b")
        I.note("child_" + name, "Filler(SelectableIcon('x'))" if selectable else "SolidFill('b')")
        return _record(w, [])
    return _ABox(I, name, selectable)


def AFixed(I, name, selectable=False):
    if not I.symbolic and I.real_env:
        pw, ph = I.int("PW_" + name, 1), I.int("PH_" + name, 1)
        if selectable:
            raise Unrealised("selectable fixed-only widget")
        if ph > 60 or pw > 500:
            raise Unrealised("fixed widget of %dx%d" % (pw, ph))

        class _F(urwid.Font):
            height = ph
            data = ("\nx\n" + "#\n" * ph,)

        w = urwid.BigText("x" * pw, _F())
        I.note("child_" + name, "BigText('x'*%d, 1x%d font)" % (pw, ph))
        w.pw, w.ph = pw, ph
        return _record(w, [])
    return _AFixed(I, name, selectable)


class _AFlow(urwid.Widget):
    """Flow widget with rows((c,), focus) = R_name(c, focus) >= 0, an uninterpreted function."""

    _sizing = frozenset([urwid.FLOW])

    MAX_ROWS = None  # harnesses whose subject is not geometry bound the child height (stated in their META)

    def __init__(self, I, name, selectable=False):
        super().__init__()
        self.I = I
        self.name = name
        self._selectable = selectable
        self.R = I.func("R_" + name, 2, bool_args=(1,))
        self.seen = []

    def selectable(self):
        return self._selectable

    def _r(self, c, focus):
        r = self.R(c, focus)
        if self.I.symbolic:
            # contract: rows >= 0; a widget that can take the focus has at least one row (true of every bundled
            # selectable flow widget: Edit, Button, CheckBox, RadioButton, SelectableIcon, ...)
            self.I.axiom(api.Implies(self._selectable, r >= 1))
            self.I.axiom(r >= 0)
            if _AFlow.MAX_ROWS is not None:
                self.I.axiom(r <= _AFlow.MAX_ROWS)
        return r

    def rows(self, size, focus=False):
        (c,) = size
        self.seen.append(("rows", size, focus))
        return self._r(c, focus)

    def render(self, size, focus=False):
        (c,) = size
        self.seen.append(("render", size, focus))
        return urwid.SolidCanvas(" ", c, self._r(c, focus))

    def keypress(self, size, key):
        self.seen.append(("keypress", size, key))
        return key


class _ABox(urwid.Widget):
    _sizing = frozenset([urwid.BOX])

    def __init__(self, I, name, selectable=False):
        super().__init__()
        self.I = I
        self.name = name
        self._selectable = selectable
        self.seen = []

    def selectable(self):
        return self._selectable

    def render(self, size, focus=False):
        c, r = size
        self.seen.append(("render", size, focus))
        return urwid.SolidCanvas(" ", c, r)

    def keypress(self, size, key):
        self.seen.append(("keypress", size, key))
        return key


class _AFixed(urwid.Widget):
    """Fixed widget with pack(()) = (PW, PH), free symbols >= 1."""

    _sizing = frozenset([urwid.FIXED])

    def __init__(self, I, name, selectable=False):
        super().__init__()
        self.I = I
        self.name = name
        self._selectable = selectable
        self.pw = I.int("PW_" + name, 1)
        self.ph = I.int("PH_" + name, 1)
        self.seen = []

    def selectable(self):
        return self._selectable

    def pack(self, size=(), focus=False):
        self.seen.append(("pack", size, focus))
        return (self.pw, self.ph)

    def render(self, size, focus=False):
        self.seen.append(("render", size, focus))
        return urwid.SolidCanvas(" ", self.pw, self.ph)

    def keypress(self, size, key):
        self.seen.append(("keypress", size, key))
        return key


def _refine_rows(ctx):
    """Alternatives that make every abstract flow child realisable: all R_x constant; or R_x(c) = ceil(n_x / c)."""
    names = [n for n in ctx.apps if n.startswith("R_")]
    if not names:
        return None
    const, ceil = [], []
    for n in names:
        decl, seen = ctx.apps[n]
        k = z3.Int("K_" + n)
        nn = z3.Int("N_" + n)
        const += [decl(*a) == k for a in seen]
        ceil.append(nn >= 1)
        for a in seen:
            r = decl(*a)
            ceil += [r >= 1, (r - 1) * a[0] + 1 <= nn, nn <= r * a[0]]
    mixed = []
    for n in names:
        decl, seen = ctx.apps[n]
        k = z3.Int("K_" + n)
        nn = z3.Int("N_" + n)
        cst = z3.And(*[decl(*a) == k for a in seen]) if seen else z3.BoolVal(True)
        cl = z3.And(nn >= 1, nn <= 100000, *[z3.And(decl(*a) >= 1, (decl(*a) - 1) * a[0] + 1 <= nn, nn <= decl(*a) * a[0]) for a in seen])
        mixed.append(z3.Or(cst, cl))
    return [const, mixed]


_refiners.append(_refine_rows)


# ------------------------------------------------------------------------------------------------------------
# helpers for text harnesses


def char_width(I, cp):
    """Width of code point cp under the *same* width function the code under test sees."""
    if I.symbolic:
        return text.sym_char_width(SymText("str", [cp])) if _isinstance(cp, SymInt) else str_util.get_char_width(chr(cp))
    return str_util.get_char_width(chr(cp))


def cps_of(t):
    """code points / byte values of a (symbolic or concrete) text"""
    if MODE == "sym" and _isinstance(t, SymText):
        return list(t.cps)
    if _isinstance(t, (bytes, bytearray)):
        return list(t)
    return [ord(c) for c in t]


def mk_text(I, kind, cps):
    if I.symbolic:
        return SymText(kind, cps)
    return bytes(cps) if kind == "bytes" else "".join(chr(c) for c in cps)


# ------------------------------------------------------------------------------------------------------------
# a Screen whose start-up is bypassed and whose output is collected (C04, C05, C12)


def make_screen(I=None):
    import io

    from urwid.display import _raw_display_base

    class StubScreen(_raw_display_base.Screen):
        def __init__(self):
            super().__init__(io.StringIO(), io.StringIO())
            self.out = []
            self._started = True

        def _start(self, alternate_buffer=True):
            self._started = True

        def _stop(self):
            self._started = False

        def hook_event_loop(self, event_loop, callback):
            pass

        def unhook_event_loop(self, event_loop):
            pass

        def _read_raw_input(self, timeout):
            return []

        def write(self, data):
            self.out.append(data)

        def flush(self):
            pass

        def get_cols_rows(self):
            return (80, 24)

    scr = StubScreen()
    _screens.append(scr)
    return scr


_screens = []


def close_screens():
    while _screens:
        s_ = _screens.pop()
        for sock in (s_._resize_pipe_rd, s_._resize_pipe_wr):
            try:
                sock.close()
            except OSError:
                pass


class ACursorLeaf(urwid.Widget):
    """Selectable abstract widget implementing the cursor protocol: a free cursor (CX, CY) inside its own size;
    records mouse / move_cursor_to_coords calls and answers them with solver-chosen Booleans.
    kind: 'flow' (rows = R(c) >= 1) or 'box'."""

    _selectable = True

    def __init__(self, I, name, kind="flow"):
        super().__init__()
        self.I = I
        self.name = name
        self.kind = kind
        self._sizing = frozenset([urwid.FLOW if kind == "flow" else urwid.BOX])
        self.R = I.func("R_" + name, 2, bool_args=(1,)) if kind == "flow" else None
        self.cx = I.int("CX_" + name, 0)
        self.cy = I.int("CY_" + name, 0)
        self.seen = []
        self.events = []
        self.moved = []
        self.cursor_queries = []
        self.accept_mouse = I.bool("mouse_ok_" + name)
        self.accept_move = I.bool("move_ok_" + name)
        self.last_size = None

    def sizing(self):
        return self._sizing

    def selectable(self):
        return True

    def _dims(self, size):
        if self.kind == "flow":
            (c,) = size
            r = self.R(c, True)
            if self.I.symbolic:
                self.I.axiom(r >= 1)
            return c, r
        return size

    def rows(self, size, focus=False):
        return self._dims(size)[1]

    def _cursor_ok(self, size):
        c, r = self._dims(size)
        # contract of the cursor protocol: the reported cursor lies inside the widget's own area
        self.I.assume(api.And(self.cx < c, self.cy < r))

    def get_cursor_coords(self, size):
        self._cursor_ok(size)
        self.cursor_queries.append(size)
        return (self.cx, self.cy)

    def get_pref_col(self, size):
        return self.cx

    def render(self, size, focus=False):
        c, r = self._dims(size)
        self.seen.append(("render", size, focus))
        self.last_size = size
        canv = urwid.CompositeCanvas(urwid.SolidCanvas("L", c, r))
        if focus:
            self._cursor_ok(size)
            canv.cursor = (self.cx, self.cy)
        self.canv = canv
        return canv

    def keypress(self, size, key):
        self.seen.append(("keypress", size, key))
        return key

    def mouse_event(self, size, event, button, col, row, focus):
        self.events.append((size, event, button, col, row, focus))
        return bool(self.accept_mouse)  # a real bool: callers test the answer with `is False` / `is True`

    def move_cursor_to_coords(self, size, col, row):
        self.moved.append((size, col, row))
        ok = bool(self.accept_move)
        if ok:
            if isinstance(col, int) or (MODE == "sym" and _isinstance(col, SymInt)):
                self.cx = col
            self.cy = row
        return ok
