"""Harness API: symbolic / concrete input provider, per-instance runner, obligation discharge, validation, replay.

A harness is a plain function  h(I, **params)  that declares its inputs through `I`, runs real urwid code and
states the property through `I.check(name, cond)`.  The same function runs
  * symbolically (lifted import, proxies) - every feasible path, obligations decided by the solver, and
  * concretely (plain import, ordinary ints/str) - to validate path witnesses and to replay counterexamples.
"""
from __future__ import annotations

import builtins
import fnmatch
import importlib
import json
import os
import subprocess
import sys
import time
from fractions import Fraction

_isinstance = builtins.isinstance

MODE = os.environ.get("SYMX_MODE", "sym")  # 'sym' in checker workers, 'conc' in the concrete server / replay

if MODE == "sym":
    import z3

    from . import core, text
    from .core import Ctx, SymBool, SymInt, SymReal, Unsupported
    from .text import SymText
else:  # concrete mode never imports z3 or the proxies
    z3 = None

    class Unsupported(BaseException):
        pass


class AssumeFailedConc(BaseException):
    pass


class Instance:
    """One harness instance = (name, module, function name, JSON-able params)."""

    def __init__(self, name, func, params=None, timeout=None, raises=(), validate=8, max_paths=200000):
        self.name = name
        self.func = func if _isinstance(func, str) else func.__name__
        self.params = params or {}
        self.timeout = timeout
        self.validate = validate
        self.max_paths = max_paths

    def to_json(self):
        return {"name": self.name, "func": self.func, "params": self.params}


# ------------------------------------------------------------------------------------------------------------
# helpers that work on proxies and concrete values alike (harness post-conditions are written with these)

if MODE == "sym":
    And, Or, Not, Implies, Iff, Ite = core.And, core.Or, core.Not, core.Implies, core.Iff, core.Ite
    smax, smin, sabs = core.sym_max, core.sym_min, core.sym_abs
else:

    def And(*xs):
        return all(xs)

    def Or(*xs):
        return any(xs)

    def Not(x):
        return not x

    def Implies(a, b):
        return (not a) or b

    def Iff(a, b):
        return bool(a) == bool(b)

    def Ite(c, a, b):
        return a if c else b

    smax, smin, sabs = builtins.max, builtins.min, builtins.abs


def ssum(xs):
    r = 0
    for x in xs:
        r = r + x
    return r


# ------------------------------------------------------------------------------------------------------------


class SymInputs:
    """Symbolic-mode input provider (one per explored path; cheap)."""

    symbolic = True

    def __init__(self, ctx, params):
        self.ctx = ctx
        self.params = params
        self.info = {}

    def _decl(self, name, const):
        self.ctx.vars.setdefault(name, const)
        return self.ctx.vars[name]

    def int(self, name, lo=None, hi=None):
        v = self._decl(name, z3.Int(name))
        if lo is not None:
            self.ctx.add_axiom(v >= lo)
        if hi is not None:
            self.ctx.add_axiom(v <= hi)
        mask = None
        if lo is not None and hi is not None and lo >= 0 and hi < (1 << 24):
            mask = (1 << builtins.max(1, builtins.int(hi).bit_length())) - 1
        return SymInt(v, mask)

    def bool(self, name):
        return SymBool(self._decl(name, z3.Bool(name)))

    def real(self, name, lo=None, hi=None):
        v = self._decl(name, z3.Real(name))
        if lo is not None:
            self.ctx.add_axiom(v >= lo)
        if hi is not None:
            self.ctx.add_axiom(v <= hi)
        return SymReal(v)

    def text(self, name, kind, length, lo=0, hi=None):
        if hi is None:
            hi = 255 if kind == "bytes" else 0x10FFFF
        cps = []
        for i in range(length):
            v = self._decl("%s[%d]" % (name, i), z3.Int("%s[%d]" % (name, i)))
            self.ctx.add_axiom(z3.And(v >= lo, v <= hi))
            if kind == "str":
                # str objects handed to urwid are valid text: no lone surrogates
                self.ctx.add_axiom(z3.Or(v < 0xD800, v > 0xDFFF))
            cps.append(SymInt(v, 0xFF if (kind == "bytes" and lo >= 0 and hi <= 255) else None))
        return SymText(kind, cps)

    def choice(self, name, options):
        """A symbolic selector over a concrete list: forks once per option."""
        k = self.int(name, 0, len(options) - 1)
        return options[k.__index__()]

    def func(self, name, nargs, bool_args=()):
        """Uninterpreted Int-valued function of nargs arguments (those listed in bool_args are Booleans)."""
        sorts = [z3.BoolSort() if i in bool_args else z3.IntSort() for i in range(nargs)] + [z3.IntSort()]
        rec = self.ctx.apps.get(name)
        if rec is None:
            rec = (z3.Function(name, *sorts), [])
            self.ctx.apps[name] = rec
        decl, seen = rec

        def call(*args):
            zargs = [core._b(a) if i in bool_args else core._z(a) for i, a in enumerate(args)]
            seen.append(tuple(zargs))
            return SymInt(decl(*zargs))

        call.decl = decl
        return call

    def axiom(self, cond):
        if _isinstance(cond, bool):
            if not cond:
                raise core.PathAbort()
            return
        self.ctx.add_axiom(cond.z if _isinstance(cond, SymBool) else cond)

    def assume(self, cond):
        self.ctx.assume(cond)

    def check(self, name, cond, info=None):
        self.ctx.oblige(name, cond, info)

    def note(self, k, v):
        self.info[k] = v

    def is_sym(self, x):
        return _isinstance(x, (SymInt, SymBool, SymReal, SymText))


class ConcInputs:
    """Concrete-mode provider: values come from a solver model (validation) or a replay file."""

    symbolic = False

    def __init__(self, params, vals, funcs, real_env=False):
        self.params = params
        self.vals = vals
        self.funcs = funcs
        self.failed = []
        self.passed = 0
        self.info = {}
        self.real_env = real_env  # True: replay of a counterexample (no table stubs for W etc.)
        self.offtable = []

    def int(self, name, lo=None, hi=None):
        v = self.vals.get(name)
        if v is None:
            v = lo if lo is not None else (hi if hi is not None and hi < 0 else 0)
        return builtins.int(v)

    def bool(self, name):
        return builtins.bool(self.vals.get(name, False))

    def real(self, name, lo=None, hi=None):
        v = self.vals.get(name)
        if v is None:
            v = lo if lo is not None else 0
        if _isinstance(v, str):
            v = Fraction(v)
        return builtins.float(v)

    def text(self, name, kind, length, lo=0, hi=None):
        cps = [self.int("%s[%d]" % (name, i), lo) for i in range(length)]
        return builtins.bytes(cps) if kind == "bytes" else "".join(chr(c) for c in cps)

    def choice(self, name, options):
        return options[self.int(name, 0, len(options) - 1)]

    def func(self, name, nargs, bool_args=()):
        tab = self.funcs.get(name, {"entries": [], "else": 0})
        entries = {tuple(e[0]): e[1] for e in tab["entries"]}

        def call(*args):
            key = tuple(builtins.bool(a) if i in bool_args else builtins.int(a) for i, a in enumerate(args))
            if key in entries:
                return entries[key]
            self.offtable.append((name, key))
            return tab["else"]

        return call

    def axiom(self, cond):
        pass

    def assume(self, cond):
        if not cond:
            raise AssumeFailedConc()

    def check(self, name, cond, info=None):
        if cond:
            self.passed += 1
        else:
            self.failed.append(name)

    def note(self, k, v):
        self.info[k] = v

    def is_sym(self, x):
        return False


# ------------------------------------------------------------------------------------------------------------
# concrete execution (server side and client side)


def _exc_site(e):
    """(exception type name, innermost urwid function) of an exception raised by the code under test."""
    import traceback

    site = None
    for f in traceback.extract_tb(e.__traceback__):
        if "/urwid/" in f.filename:
            site = "%s:%s" % (f.filename.split("/urwid/")[-1], f.name)
    return type(e).__name__, site


def run_concrete(module, func, params, vals, funcs, real_env):
    """Run a harness concretely in *this* process (must be a SYMX_MODE=conc process)."""
    mod = importlib.import_module(module)
    h = getattr(mod, func)
    I = ConcInputs(params, vals, funcs, real_env)
    out = {"kind": "ok", "failed": [], "exc": None, "site": None, "msg": None}
    try:
        h(I, **params)
    except AssumeFailedConc:
        out["kind"] = "assumed-away"
    except Unsupported as e:
        out["kind"] = "unsupported"
        out["msg"] = repr(e)
    except Exception as e:  # noqa: BLE001
        if type(e).__name__ == "Unrealised":
            out["kind"] = "unrealised"
            out["msg"] = str(e)
            return out | {"failed": [], "passed": 0, "offtable": [], "info": {}}
        out["kind"] = "exc"
        out["exc"], out["site"] = _exc_site(e)
        out["msg"] = str(e)[:300]
    out["failed"] = I.failed
    out["passed"] = I.passed
    out["offtable"] = I.offtable[:5]
    out["info"] = {k: repr(v)[:300] for k, v in I.info.items()}
    return out


class ConcreteServer:
    """Client handle on a child interpreter that runs harnesses concretely on the un-lifted urwid."""

    def __init__(self):
        env = dict(os.environ)
        env["SYMX_MODE"] = "conc"
        env["PYTHONPATH"] = os.path.dirname(os.path.dirname(os.path.abspath(__file__)))
        env["PYTHONWARNINGS"] = "ignore"
        self.p = subprocess.Popen(
            [sys.executable, "-m", "symx.concrete"], stdin=subprocess.PIPE, stdout=subprocess.PIPE, env=env, text=True
        )

    def call(self, req, timeout=30.0):
        import select

        if self.p is None or self.p.poll() is not None:
            self.__init__()
        self.p.stdin.write(json.dumps(req) + "\n")
        self.p.stdin.flush()
        r, _, _ = select.select([self.p.stdout], [], [], timeout)
        if not r:
            self.p.kill()
            self.p.wait()
            self.p = None
            return {"kind": "timeout", "failed": [], "exc": None, "site": None, "msg": "concrete run exceeded %.0fs" % timeout, "passed": 0, "offtable": [], "info": {}}
        line = self.p.stdout.readline()
        if not line:
            self.p = None
            raise RuntimeError("concrete server died")
        return json.loads(line)

    def close(self):
        if self.p is None:
            return
        try:
            self.p.stdin.close()
            self.p.wait(timeout=5)
        except Exception:  # noqa: BLE001
            self.p.kill()


def replay_fresh(req):
    """Run one concrete request in a brand-new interpreter (used for counterexample replay)."""
    srv = ConcreteServer()
    try:
        return srv.call(req)
    finally:
        srv.close()


# ------------------------------------------------------------------------------------------------------------
# symbolic side: run one instance


def _val_of(model, const):
    v = model.eval(const, model_completion=True)
    if z3.is_int_value(v):
        return v.as_long()
    if z3.is_true(v):
        return True
    if z3.is_false(v):
        return False
    if z3.is_rational_value(v):
        return "%d/%d" % (v.numerator_as_long(), v.denominator_as_long())
    if z3.is_algebraic_value(v):
        return str(v.approx(20))
    return str(v)


def model_to_inputs(ctx, model):
    vals = {n: _val_of(model, c) for n, c in ctx.vars.items()}
    funcs = {}
    for name, (decl, seen) in ctx.apps.items():
        if decl is None:
            continue
        entries = {}
        for args in seen:
            try:
                key = tuple(_val_of(model, a) for a in args)
                entries[key] = _val_of(model, decl(*args))
            except z3.Z3Exception:
                continue
        els = 0
        try:
            fi = model[decl]
            if fi is not None and hasattr(fi, "else_value"):
                ev = fi.else_value()
                if z3.is_int_value(ev):
                    els = ev.as_long()
        except Exception:  # noqa: BLE001
            pass
        funcs[name] = {"entries": [[list(k), v] for k, v in entries.items()], "else": els}
    return vals, funcs


def small_model_constraints(ctx, bound):
    cs = []
    for n, c in ctx.vars.items():
        if z3.is_int(c) and "[" not in n:  # text code points keep their own ranges
            cs.append(z3.And(c >= -bound, c <= bound))
    for name, (decl, seen) in ctx.apps.items():
        if name == "W" or decl is None:
            continue
        for a in seen:
            cs.append(z3.And(decl(*a) >= -bound, decl(*a) <= bound))
    return cs


class InstanceResult(dict):
    pass


def run_instance(module, inst, tier, seed, concrete=None, refine=None):
    """Explore one harness instance symbolically.  Returns a JSON-able result dict.

    refine(ctx, model_constraints) -> extra z3 constraints used when re-solving a counterexample so that it is
    replayable in the real environment (e.g. tie W to the real width table)."""
    from . import uw  # urwid support (stubs); imported lazily so that api can be imported first

    mod = importlib.import_module(module)
    h = getattr(mod, inst["func"])
    params = inst["params"]
    name = inst["name"]
    timeout = inst.get("timeout") or (120 if tier == "quick" else 900)
    nvalidate = inst.get("validate", 6 if tier == "quick" else 20)
    t0 = time.time()
    res = {
        "name": name, "func": inst["func"], "params": params, "paths": 0, "kinds": {}, "forks": 0, "obligations": 0,
        "discharged": 0, "validated": 0, "validation_mismatch": [], "candidates": [], "inconclusive": [],
        "sample": None, "functions": [], "conc_sites": {}, "notes": [], "unrealised": [],
    }
    own_conc = False
    if concrete is None:
        concrete = ConcreteServer()
        own_conc = True
    cand_seen = {}
    cand_unreal = {}

    def fn():
        I = SymInputs(Ctx.cur, params)
        Ctx.cur.I = I
        uw.reset_between_paths()
        return h(I, **params)

    def conc_req(vals, funcs, real_env):
        return {"module": module, "func": inst["func"], "params": params, "vals": vals, "funcs": funcs, "real_env": real_env}

    def candidate(ctx, kind, sig, model, pr):
        """A counterexample candidate: make it replayable, replay on the real code, record."""
        key = (kind, sig)
        # at most 3 concrete replays per signature; failing paths whose model cannot be refined to the real environment
        # (e.g. the abstract width function gave an unreal class to a character) do not use up that allowance, up to 12 tries
        if cand_seen.get(key, 0) >= 3 or cand_unreal.get(key, 0) >= 12 or len(res["candidates"]) >= 24:
            res["more_failing_paths"] = res.get("more_failing_paths", 0) + 1
            return
        alts = uw.refine_for_replay(ctx) or [[]]
        neg = [z3.Not(sig_cond[0])] if kind == "check" else []
        m2 = None
        r = None
        for extra in alts:
            # prefer small witnesses: readable, and cheap to replay (a 60000-column canvas is legal but slow)
            for bound in (8, 64, 4096, None):
                small = small_model_constraints(ctx, bound) if bound is not None else []
                r, m2 = ctx._check(*neg, *extra, *small, timeout_ms=3000)
                if r == "sat":
                    break
            if r == "sat":
                break
        if r != "sat":
            if alts == [[]]:
                m2 = model
            else:
                try:
                    av, af = model_to_inputs(ctx, model) if model is not None else ({}, {})
                except Exception:  # noqa: BLE001
                    av, af = {}, {}
                res["unrealised"].append("%s %s: %s under the real-environment constraints; abstract model %s %s" % (kind, sig, r, json.dumps(av)[:300], json.dumps(af)[:300]))
                cand_unreal[key] = cand_unreal.get(key, 0) + 1
                return
        cand_seen[key] = cand_seen.get(key, 0) + 1
        vals, funcs = model_to_inputs(ctx, m2)
        out = concrete.call(conc_req(vals, funcs, True))
        if out["kind"] in ("unrealised", "timeout"):
            res["unrealised"].append("%s %s: %s" % (kind, sig, out["msg"]))
            return
        reproduced = False
        if kind == "check":
            reproduced = sig in out["failed"]
        else:
            reproduced = out["kind"] == "exc" and out["exc"] == sig[0]
        if not reproduced and any(k.startswith("child_") for k in out.get("info", {})):
            # the bundled widget chosen to stand for an abstract child (e.g. Pile([]) for "0 rows") is not
            # equivalent to it in every respect (sizing set); such a replay shows nothing either way
            res["unrealised"].append("%s %s: not reproduced with the realisation %s" % (kind, sig, {k: v for k, v in out["info"].items() if k.startswith("child_")}))
            return
        res["candidates"].append(
            {"kind": kind, "sig": sig if _isinstance(sig, str) else list(sig), "vals": vals, "funcs": funcs, "reproduced": reproduced,
             "concrete": out, "tb": (pr.tb or "")[-1500:] if kind == "exc" else None}
        )

    sig_cond = [None]

    def on_path(ctx, pr):
        res["paths"] += 1
        res["kinds"][pr.kind] = res["kinds"].get(pr.kind, 0) + 1
        if pr.kind == "unsupported":
            if len(res["inconclusive"]) < 20:
                res["inconclusive"].append("unsupported: %s | %s" % (pr.value, " <- ".join(l.strip() for l in (pr.tb or "").strip().splitlines() if l.strip().startswith("File"))[-700:]))
            else:
                res["inconclusive"].append("unsupported")
            return
        if pr.kind not in ("ok", "exc"):
            return
        # 1. obligations
        obs = pr.obligations
        path_sat = set()
        res["obligations"] += len(obs)
        if obs:
            allc = z3.And(*[c for _, c, _ in obs])
            r, m = ctx._check(z3.Not(allc))
            if r == "unsat":
                res["discharged"] += len(obs)
            else:
                for oname, c, info in obs:
                    r1, m1 = ctx._check(z3.Not(c))
                    if r1 == "unsat":
                        res["discharged"] += 1
                    elif r1 == "sat":
                        path_sat.add(oname)
                        sig_cond[0] = c
                        candidate(ctx, "check", oname, m1, pr)
                    else:
                        res["inconclusive"].append("unknown on obligation %s" % oname)
        # 2. unexpected exception
        if pr.kind == "exc":
            from .api import _exc_site as es

            sig = es(pr.value)
            candidate(ctx, "exc", sig, pr.witness, pr)
        # 3. validation of the path witness against the un-lifted implementation
        if res["validated"] + len(res["validation_mismatch"]) < nvalidate and pr.witness is not None:
            wit = pr.witness
            pin = text.dbcs_refine(ctx)  # environment facts the proxies leave open (double-byte codec results)
            if pin:
                r, m = ctx._check(*pin, timeout_ms=3000)
                if r != "sat":
                    return  # this path needs a byte pair whose real decoding is not in the known list: not validated
                wit = m
            for bound in (8, 64, 4096):
                r, m = ctx._check(*pin, *small_model_constraints(ctx, bound), timeout_ms=2000)
                if r == "sat":
                    wit = m
                    break
            vals, funcs = model_to_inputs(ctx, wit)
            out = concrete.call(conc_req(vals, funcs, False))
            if out["kind"] == "timeout":
                return
            ok = True
            if pr.kind == "ok":
                ok = out["kind"] == "ok"
            else:
                ok = out["kind"] == "exc" and out["exc"] == type(pr.value).__name__
            # concrete failed checks must be explained by a sat obligation on this path
            if ok and any(f not in path_sat for f in out["failed"]):
                ok = False
            if ok:
                res["validated"] += 1
                if res["sample"] is None:
                    res["sample"] = {"inputs": vals, "path_kind": pr.kind, "decisions": len(pr.trace),
                                     "obligations": [o[0] for o in obs][:12], "concrete": out["info"]}
            else:
                res["validation_mismatch"].append({"vals": vals, "funcs": funcs, "symbolic": pr.kind + (":" + type(pr.value).__name__ if pr.kind == "exc" else ""),
                                                   "concrete": out, "tb": (pr.tb or "")[-800:]})

    uw.begin_instance()
    try:
        ctx, results, complete = core.explore(fn, (), max_paths=inst.get("max_paths", 200000), timeout=timeout, seed=seed, on_path=on_path)
    finally:
        uw.end_instance()
        if own_conc:
            concrete.close()
    res["complete"] = bool(complete)
    if res["unrealised"]:
        res["inconclusive"].append("%d counterexample(s) over abstract children that no bundled widget realises (first: %s)" % (len(res["unrealised"]), res["unrealised"][0][:300]))
    if not complete:
        res["inconclusive"].append("budget exhausted (%.0fs / paths=%d)" % (timeout, res["paths"]))
    # coverage certificate: the explored path conditions jointly cover the axioms' space
    cert = None
    if complete:
        if len(results) <= 4000:
            s = z3.Solver()
            s.set("timeout", 15000)
            for ax in ctx.axioms:
                s.add(ax)
            s.add(z3.Not(z3.Or(*[z3.And(*pr.pc) if pr.pc else z3.BoolVal(True) for pr in results])))
            t = time.time()
            cert = str(s.check())
            ctx.solver_time += time.time() - t
            ctx.nchecks += 1
            if cert == "sat":
                res["inconclusive"].append("coverage certificate: sat (explored paths do not cover the input space: engine error)")
            elif cert != "unsat":
                # the work list emptied, so coverage holds by construction; the semantic cross-check did not finish
                res["notes"].append("coverage certificate query: %s within 15 s" % cert)
        else:
            cert = "skipped(>4000 paths; complete by construction of the work list)"
    res["certificate"] = cert
    res["forks"] = ctx.nforks
    res["queries"] = ctx.nchecks
    res["solver_s"] = round(ctx.solver_time, 3)
    res["wall_s"] = round(time.time() - t0, 3)
    res["conc_sites"] = {k: len(v) for k, v in ctx.conc_sites.items()}
    res["functions"] = uw.functions_seen()
    res["unknowns"] = ctx.unknowns
    return res
