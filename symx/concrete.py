"""Concrete server: runs harness functions on the plain (un-lifted) urwid with ordinary Python values.
One JSON request per line on stdin, one JSON reply per line on stdout."""
import json
import os
import sys

os.environ["SYMX_MODE"] = "conc"


def main():
    from symx import loader

    loader.install(lifted=False)
    from symx import api, uw  # noqa: F401

    out = sys.stdout
    sys.stdout = sys.stderr  # harness / urwid prints must not corrupt the protocol
    for line in sys.stdin:
        line = line.strip()
        if not line:
            continue
        req = json.loads(line)
        try:
            uw.reset_between_paths()
            try:
                uw._canvas.CanvasCache.clear()
            except Exception:  # noqa: BLE001
                pass
            rep = api.run_concrete(req["module"], req["func"], req["params"], req["vals"], req.get("funcs", {}), req.get("real_env", False))
        except BaseException as e:  # noqa: BLE001
            import traceback

            rep = {"kind": "server-error", "failed": [], "exc": type(e).__name__, "site": None, "msg": traceback.format_exc()[-1500:], "info": {}, "passed": 0, "offtable": []}
        finally:
            uw.restore_stubs()
        out.write(json.dumps(rep) + "\n")
        out.flush()


if __name__ == "__main__":
    main()
