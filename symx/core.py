"""symx core: dynamic symbolic execution of real Python code over z3.

Proxies (SymInt / SymBool / SymReal) wrap z3 terms.  Whenever the interpreter needs a concrete truth value the
proxy asks the current context to *branch*: both sides are checked for satisfiability under the path condition;
when both are feasible one is followed and the other is queued.  Every path is re-executed from the start with its
recorded decision prefix (no solver calls while replaying the prefix).

Nothing in here knows about urwid.
"""
from __future__ import annotations

import builtins
import os
import random
import sys
import time
import traceback

import z3

_int = builtins.int
_float = builtins.float
_isinstance = builtins.isinstance


class Unsupported(BaseException):
    """A proxy was asked for something it cannot express; the path (and harness) is inconclusive.
    BaseException so that `except Exception` clauses in the code under test cannot swallow it."""


class PathAbort(BaseException):
    """Current path is infeasible."""


class AssumeFailed(BaseException):
    """The harness' assumption does not hold on this path (path is outside the claim, by assumption)."""


class Budget(BaseException):
    """Wall-clock / path / depth budget of the exploration exhausted."""


CHECK_TIMEOUT_MS = _int(os.environ.get("SYMX_CHECK_TIMEOUT_MS", "10000"))
MAX_DEPTH = 6000
MAX_CONC_VALUES = 400


class Ctx:
    cur: "Ctx | None" = None

    def __init__(self, pre=(), deadline=None, seed=0):
        logic = os.environ.get("SYMX_LOGIC")
        self.solver = z3.SolverFor(logic) if logic else z3.Solver()
        self.solver.set("timeout", CHECK_TIMEOUT_MS)
        self.pre = [p for p in pre]
        for p in self.pre:
            self.solver.add(p)
        self.axioms = []
        self._axiom_ids = set()
        self.nchecks = 0
        self.solver_time = 0.0
        self.nforks = 0
        self.conc_sites = {}
        self.deadline = deadline
        self.rng = random.Random(seed)
        self.level = 0
        self.vars = {}  # name -> z3 const (inputs declared by the harness)
        self.apps = {}  # uninterpreted function name -> (decl, set of argument tuples seen)
        self.unknowns = 0

    # -- solver plumbing -------------------------------------------------------------------------------------
    def _check(self, *extra, timeout_ms=None):
        t = time.time()
        self.nchecks += 1
        if timeout_ms is not None:
            self.solver.set("timeout", timeout_ms)
        try:
            return self._check1(extra, t)
        finally:
            if timeout_ms is not None:
                self.solver.set("timeout", CHECK_TIMEOUT_MS)

    def _check1(self, extra, t):
        if extra:
            self.solver.push()
            for a in extra:
                self.solver.add(a)
        r = self.solver.check()
        m = self.solver.model() if r == z3.sat else None
        if extra:
            self.solver.pop()
        self.solver_time += time.time() - t
        r = str(r)
        if r == "unknown":
            self.unknowns += 1
        return r, m

    def add_axiom(self, ax):
        """A globally valid fact (an instance of a universally quantified stub contract)."""
        k = ax.get_id()
        if k in self._axiom_ids:
            # already known, but the solver may have popped it: re-add at the current level if needed
            if k in self._axioms_live:
                return
        else:
            self._axiom_ids.add(k)
            self.axioms.append(ax)
        self._axioms_live.add(k)
        self._axioms_lvl.append(k)
        self.solver.add(ax)
        if self.model is not None and not self._holds(ax):
            self.model = None

    # -- per-run state ---------------------------------------------------------------------------------------
    def start_run(self, forced):
        self.forced = forced
        self.depth = 0
        self.pc = []
        self.trace = []
        self.new_work = []
        self.model = None
        self.obligations = []
        self.notes = []
        self.decided = {}
        self.solver.push()
        self._axioms_live = set()
        self._axioms_lvl = []
        for ax in self.axioms:
            self.solver.add(ax)
            self._axioms_live.add(ax.get_id())

    def end_run(self):
        self.solver.pop()

    def _holds(self, cond):
        try:
            v = self.model.eval(cond, model_completion=True)
            if z3.is_true(v):
                return True
            if z3.is_false(v):
                return False
        except Exception:
            pass
        return None

    def _push_pc(self, c):
        self.pc.append(c)
        self.solver.add(c)

    def branch(self, cond, tag=None):
        """tag: for concretisation decisions the candidate value, recorded in the trace so that a replayed prefix
        re-asks about the *same* value (the model that proposed it is not available during replay)."""
        cond = z3.simplify(cond)
        if z3.is_true(cond):
            return True
        if z3.is_false(cond):
            return False
        # a condition already decided on this path keeps its outcome (the decision is part of the path condition);
        # no solver call, no new trace entry - deterministic, so replays of a prefix skip exactly the same ones
        cid = cond.get_id()
        if tag is None:
            known = self.decided.get(cid)
            if known is not None:
                return known
        d = self.depth
        self.depth += 1
        if d < len(self.forced):
            v = self.forced[d]
            self.trace.append(v)
            if _isinstance(v, tuple):
                v = v[1]
            self._push_pc(cond if v else z3.Not(cond))
            self.model = None
            if tag is None:
                self.decided[cid] = v
            return v
        if d > MAX_DEPTH:
            raise Unsupported("path deeper than %d decisions" % MAX_DEPTH)
        if self.deadline is not None and time.time() > self.deadline:
            raise Budget("deadline")
        mv = self._holds(cond) if self.model is not None else None
        ncond = z3.Not(cond)
        if mv is True:
            rt = "sat"
            rf, m2 = self._check(ncond)
        elif mv is False:
            rf = "sat"
            rt, m2 = self._check(cond)
        else:
            rt, m1 = self._check(cond)
            if rt == "sat":
                self.model = m1
                mv = True
            rf, m2 = self._check(ncond)
            if rt != "sat" and rf == "sat":
                self.model = m2
                mv = False
        if rt == "unknown" or rf == "unknown":
            raise Unsupported("solver answered unknown on a branch condition")
        if rt == "sat" and rf == "sat":
            v = mv
            self.nforks += 1
            self.new_work.append(self.trace + [(not v) if tag is None else (tag, not v)])
        elif rt == "sat":
            v = True
        elif rf == "sat":
            v = False
        else:
            raise PathAbort()
        self.trace.append(v if tag is None else (tag, v))
        self._push_pc(cond if v else ncond)
        if tag is None:
            self.decided[cid] = v
        return v

    def assume(self, cond):
        """`if not cond: outside the claim`.  Implemented as a branch so that coverage stays certifiable."""
        if _isinstance(cond, SymBool):
            cond = cond.z
        elif not _isinstance(cond, z3.ExprRef):
            if not cond:
                raise AssumeFailed()
            return
        if not self.branch(cond):
            raise AssumeFailed()

    def oblige(self, name, cond, info=None):
        if _isinstance(cond, SymBool):
            cond = cond.z
        elif not _isinstance(cond, z3.ExprRef):
            cond = z3.BoolVal(bool(cond))
        self.obligations.append((name, cond, info))

    def concretize(self, expr):
        expr = z3.simplify(expr)
        if z3.is_int_value(expr):
            return expr.as_long()
        if z3.is_true(expr):
            return True
        if z3.is_false(expr):
            return False
        fr = None
        for f in reversed(traceback.extract_stack()[:-1]):
            if "/symx/" not in f.filename:
                fr = f
                break
        k = "%s:%s" % (fr.filename.split("/urwid/")[-1] if fr else "?", fr.lineno if fr else 0)
        seen = self.conc_sites.setdefault(k, set())
        while True:
            d = self.depth
            if d < len(self.forced) and _isinstance(self.forced[d], tuple):
                v = self.forced[d][0]  # replaying: ask about the value this decision was made for
            else:
                if self.model is None:
                    r, m = self._check()
                    if r == "unknown":
                        raise Unsupported("solver answered unknown while concretising")
                    if r != "sat":
                        raise PathAbort()
                    self.model = m
                mv = self.model.eval(expr, model_completion=True)
                if z3.is_int_value(mv):
                    v = mv.as_long()
                elif z3.is_true(mv):
                    v = True
                elif z3.is_false(mv):
                    v = False
                else:
                    raise Unsupported("cannot concretise %s" % expr.sort())
            seen.add(v)
            if len(seen) > MAX_CONC_VALUES:
                raise Unsupported("unbounded concretisation at %s" % k)
            if self.branch(expr == (z3.BoolVal(v) if _isinstance(v, bool) else v), tag=v):
                return v

    def witness(self):
        """A model of the current path condition (or None)."""
        if self.model is not None:
            return self.model
        r, m = self._check()
        if r == "sat":
            self.model = m
        return m


class PathResult:
    __slots__ = ("pc", "kind", "value", "tb", "obligations", "witness", "notes", "trace")

    def __init__(self, pc, kind, value, tb, obligations, witness, notes, trace):
        self.pc, self.kind, self.value, self.tb = pc, kind, value, tb
        self.obligations, self.witness, self.notes, self.trace = obligations, witness, notes, trace


def explore(fn, pre=(), max_paths=200000, timeout=600.0, seed=0, on_path=None):
    """Run fn() on every feasible path.  Returns (ctx, results, complete).

    on_path(ctx, PathResult) is called at the end of each path while the solver still holds the path condition,
    so obligations can be discharged incrementally (the solver state is pushed to exactly this path's pc)."""
    ctx = Ctx(pre, deadline=time.time() + timeout, seed=seed)
    prev = Ctx.cur
    Ctx.cur = ctx
    work = [[]]
    results = []
    complete = True
    try:
        while work:
            forced = work.pop()
            ctx.start_run(forced)
            tb = None
            try:
                try:
                    out = ("ok", fn())
                except PathAbort:
                    out = ("abort", None)
                except AssumeFailed:
                    out = ("assumed-away", None)
                except Budget:
                    out = ("budget", None)
                except Unsupported as e:
                    out = ("unsupported", repr(e))
                    tb = traceback.format_exc()
                except RecursionError as e:
                    out = ("unsupported", "RecursionError")
                    tb = traceback.format_exc()
                except Exception as e:  # noqa: BLE001 - any exception of the code under test is an outcome
                    out = ("exc", e)
                    tb = traceback.format_exc()
                    e.__traceback_frames__ = [(f.filename, f.name, f.lineno) for f in traceback.extract_tb(e.__traceback__)]
                wit = None
                if out[0] in ("ok", "exc"):
                    wit = ctx.witness()
                    if wit is None:
                        out = ("abort", None)
                pr = PathResult(list(ctx.pc), out[0], out[1], tb, list(ctx.obligations), wit, list(ctx.notes), list(ctx.trace))
                if on_path is not None and out[0] != "budget":
                    on_path(ctx, pr)
                results.append(pr)
                if out[0] == "budget":
                    complete = False
                    break
                nw = ctx.new_work
                if seed:
                    ctx.rng.shuffle(nw)
                work.extend(nw)
            finally:
                ctx.end_run()
            if len(results) >= max_paths or time.time() > ctx.deadline:
                complete = not work
                break
    finally:
        Ctx.cur = prev
    return ctx, results, complete


# ------------------------------------------------------------------------------------------------------------
# proxies


def _z(x):
    """z3 Int term for x, or None."""
    if _isinstance(x, SymInt):
        return x.z
    if _isinstance(x, z3.ExprRef):
        return x
    if _isinstance(x, bool):
        return z3.IntVal(_int(x))
    if _isinstance(x, _int):
        return z3.IntVal(x)
    if _isinstance(x, SymBool):
        return z3.If(x.z, 1, 0)
    return None


def _zr(x):
    if _isinstance(x, SymReal):
        return x.z
    if _isinstance(x, SymInt):
        return z3.ToReal(x.z)
    if _isinstance(x, SymBool):
        return z3.ToReal(z3.If(x.z, 1, 0))
    if _isinstance(x, bool):
        return z3.RealVal(_int(x))
    if _isinstance(x, _int):
        return z3.RealVal(x)
    if _isinstance(x, _float):
        if x != x or x in (_float("inf"), _float("-inf")):
            raise Unsupported("non-finite float")
        from fractions import Fraction

        return z3.RealVal(str(Fraction(x)))
    return None


def _b(o):
    if _isinstance(o, SymBool):
        return o.z
    if _isinstance(o, SymInt):
        return o.z != 0
    if _isinstance(o, z3.ExprRef):
        return o
    return z3.BoolVal(bool(o))


class SymBool:
    __slots__ = ("z",)

    def __init__(self, z):
        self.z = z

    def __bool__(self):
        return Ctx.cur.branch(self.z)

    def __and__(self, o):
        return SymBool(z3.And(self.z, _b(o)))

    __rand__ = __and__

    def __or__(self, o):
        return SymBool(z3.Or(self.z, _b(o)))

    __ror__ = __or__

    def __xor__(self, o):
        return SymBool(z3.Xor(self.z, _b(o)))

    __rxor__ = __xor__

    def __invert__(self):
        return SymBool(z3.Not(self.z))

    def __eq__(self, o):
        if _isinstance(o, (SymBool, bool)):
            return SymBool(self.z == _b(o))
        if _isinstance(o, (SymInt, _int)):
            return SymBool(z3.If(self.z, 1, 0) == _z(o))
        return False

    def __ne__(self, o):
        r = self.__eq__(o)
        return (not r) if _isinstance(r, bool) else ~r

    def __hash__(self):
        return hash(bool(self))

    def __index__(self):
        return _int(bool(self))

    def _i(self):
        return SymInt(z3.If(self.z, 1, 0))

    def __mul__(self, o):
        return self._i() * o

    __rmul__ = __mul__

    def __add__(self, o):
        return self._i() + o

    __radd__ = __add__

    def __sub__(self, o):
        return self._i() - o

    def __rsub__(self, o):
        return o - self._i()

    def __neg__(self):
        return -self._i()

    def __lt__(self, o):
        return self._i() < o

    def __le__(self, o):
        return self._i() <= o

    def __gt__(self, o):
        return self._i() > o

    def __ge__(self, o):
        return self._i() >= o

    def __repr__(self):
        return "<SB %s>" % (self.z,)


def pyfloordiv(a, b):
    """Python floor division of z3 Int terms (b != 0 is the caller's business)."""
    if z3.is_int_value(b):
        bv = b.as_long()
        if bv > 0:
            return a / b
        if bv < 0:
            return (-a) / z3.IntVal(-bv)
    return z3.If(b > 0, a / b, (-a) / (-b))


def pymod(a, b):
    if z3.is_int_value(b) and b.as_long() > 0:
        return a % b
    return a - b * pyfloordiv(a, b)


def _is_pow2_run(m):
    """m > 0 is a contiguous run of one bits: returns (low, width) or None."""
    if m <= 0:
        return None
    low = (m & -m).bit_length() - 1
    x = m >> low
    if x & (x + 1):
        return None
    return low, x.bit_length()


def _and_const(z, m):
    """z & m for Python's unbounded two's-complement ints and a non-negative constant mask m."""
    if m == 0:
        return z3.IntVal(0)
    if m < 0:
        # x & m == x - (x & ~m)   with ~m >= 0
        return z - _and_const(z, ~m)
    out = None
    low = 0
    mm = m
    # split mask into contiguous runs of ones
    while mm:
        if mm & 1:
            w = 0
            while (mm >> w) & 1:
                w += 1
            term = ((z / (1 << low)) % (1 << w)) * (1 << low) if low else (z % (1 << w))
            out = term if out is None else out + term
            mm >>= w
            low += w
        else:
            mm >>= 1
            low += 1
    return out


def _bits(z, width):
    return [(z / (1 << i)) % 2 for i in range(width)]


class SymInt:
    """z: z3 Int term.  mask: None, or a non-negative int m such that the value is known to satisfy 0 <= v and
    v & ~m == 0 (an over-approximation of the bits that may be set) - lets `a | b` and `a & b` of bit-disjoint /
    byte-sized operands stay linear instead of being expanded bit by bit."""

    __slots__ = ("z", "mask")
    BITWIDTH = 32

    def __init__(self, z, mask=None):
        self.z = z
        self.mask = mask

    # arithmetic ---------------------------------------------------------------------------------------------
    def __add__(self, o):
        a = _z(o)
        if a is None:
            r = _zr(o)
            return NotImplemented if r is None else SymReal(z3.ToReal(self.z) + r)
        return SymInt(self.z + a)

    __radd__ = __add__

    def __sub__(self, o):
        a = _z(o)
        if a is None:
            r = _zr(o)
            return NotImplemented if r is None else SymReal(z3.ToReal(self.z) - r)
        return SymInt(self.z - a)

    def __rsub__(self, o):
        a = _z(o)
        if a is None:
            r = _zr(o)
            return NotImplemented if r is None else SymReal(r - z3.ToReal(self.z))
        return SymInt(a - self.z)

    def __mul__(self, o):
        a = _z(o)
        if a is None:
            r = _zr(o)
            if r is None:
                return NotImplemented  # lets list/str/SymText * SymInt fall to their __rmul__/__mul__
            return SymReal(z3.ToReal(self.z) * r)
        return SymInt(self.z * a)

    def __rmul__(self, o):
        a = _z(o)
        if a is None:
            r = _zr(o)
            if r is None:
                # sequence repetition: "x" * n  /  [0] * n
                return o * self.__index__()
            return SymReal(z3.ToReal(self.z) * r)
        return SymInt(self.z * a)

    def __neg__(self):
        return SymInt(-self.z)

    def __pos__(self):
        return self

    def __abs__(self):
        return SymInt(z3.If(self.z >= 0, self.z, -self.z))

    def _chk0(self, b):
        if SymBool(b == 0):
            raise ZeroDivisionError("integer division or modulo by zero")

    def __floordiv__(self, o):
        a = _z(o)
        if a is None:
            r = _zr(o)
            if r is None:
                return NotImplemented
            return (self / o).floor_real()
        self._chk0(a)
        return SymInt(pyfloordiv(self.z, a))

    def __rfloordiv__(self, o):
        a = _z(o)
        if a is None:
            return NotImplemented
        self._chk0(self.z)
        return SymInt(pyfloordiv(a, self.z))

    def __mod__(self, o):
        a = _z(o)
        if a is None:
            return NotImplemented
        self._chk0(a)
        return SymInt(pymod(self.z, a))

    def __rmod__(self, o):
        a = _z(o)
        if a is None:
            return NotImplemented  # e.g. "%d" % symint is handled by str.__mod__ -> __index__/__int__
        self._chk0(self.z)
        return SymInt(pymod(a, self.z))

    def __divmod__(self, o):
        return (self // o, self % o)

    def __rdivmod__(self, o):
        return (o // self, o % self)

    def __truediv__(self, o):
        r = _zr(o)
        if r is None:
            return NotImplemented
        if SymBool(r == 0):
            raise ZeroDivisionError("division by zero")
        return SymReal(z3.ToReal(self.z) / r)

    def __rtruediv__(self, o):
        r = _zr(o)
        if r is None:
            return NotImplemented
        if SymBool(self.z == 0):
            raise ZeroDivisionError("division by zero")
        return SymReal(r / z3.ToReal(self.z))

    def __pow__(self, o):
        if _isinstance(o, _int) and 0 <= o <= 4:
            r = z3.IntVal(1)
            for _ in range(o):
                r = r * self.z
            return SymInt(r)
        raise Unsupported("pow")

    def __rpow__(self, o):
        if _isinstance(o, _int):
            return o ** self.__index__()
        raise Unsupported("rpow")

    # bit operations (see DESIGN 3.1) --------------------------------------------------------------------------
    def __and__(self, o):
        if _isinstance(o, bool):
            o = _int(o)
        if _isinstance(o, _int):
            if self.mask is not None and o >= 0:
                m = self.mask & o
                if m == 0:
                    return 0
                if m == self.mask:
                    return self
                return SymInt(_and_const(self.z, m), m)
            return SymInt(_and_const(self.z, o), o if o >= 0 else None)
        if _isinstance(o, SymInt):
            if self.mask is not None and o.mask is not None and self.mask & o.mask == 0:
                return 0
            w = SymInt.BITWIDTH
            if self.mask is not None and o.mask is not None:
                w = builtins.max(1, (self.mask & o.mask).bit_length())
            a, b = _bits(self.z, w), _bits(o.z, w)
            Ctx.cur.notes.append("sym&sym expanded over %d bits" % w)
            return SymInt(z3.Sum([a[i] * b[i] * (1 << i) for i in range(w)]))
        return NotImplemented

    __rand__ = __and__

    def _omask(self, o):
        if _isinstance(o, SymInt):
            return o.mask
        if _isinstance(o, _int) and o >= 0:
            return o
        return None

    def __or__(self, o):
        # x | m == x + m - (x & m)
        if _isinstance(o, (_int, SymInt)):
            om = self._omask(o)
            r = self + o - (self & o)
            if _isinstance(r, SymInt) and self.mask is not None and om is not None:
                r.mask = self.mask | om
            return r
        return NotImplemented

    __ror__ = __or__

    def __xor__(self, o):
        if _isinstance(o, (_int, SymInt)):
            return self + o - 2 * (self & o)
        return NotImplemented

    __rxor__ = __xor__

    def __invert__(self):
        return SymInt(-self.z - 1)

    def __lshift__(self, o):
        if _isinstance(o, SymInt):
            o = o.__index__()
        return SymInt(self.z * (1 << o), None if self.mask is None else self.mask << o)

    def __rlshift__(self, o):
        return o << self.__index__()

    def __rshift__(self, o):
        if _isinstance(o, SymInt):
            o = o.__index__()
        return SymInt(self.z / (1 << o), None if self.mask is None else self.mask >> o)

    def __rrshift__(self, o):
        return o >> self.__index__()

    # comparisons --------------------------------------------------------------------------------------------
    def _cmp(self, o, f):
        a = _z(o)
        if a is None:
            r = _zr(o)
            if r is None:
                return NotImplemented
            return SymBool(f(z3.ToReal(self.z), r))
        return SymBool(f(self.z, a))

    def __lt__(self, o):
        return self._cmp(o, lambda a, b: a < b)

    def __le__(self, o):
        return self._cmp(o, lambda a, b: a <= b)

    def __gt__(self, o):
        return self._cmp(o, lambda a, b: a > b)

    def __ge__(self, o):
        return self._cmp(o, lambda a, b: a >= b)

    def __eq__(self, o):
        r = self._cmp(o, lambda a, b: a == b)
        return False if r is NotImplemented else r

    def __ne__(self, o):
        r = self._cmp(o, lambda a, b: a != b)
        return True if r is NotImplemented else r

    def __bool__(self):
        return Ctx.cur.branch(self.z != 0)

    def __index__(self):
        return Ctx.cur.concretize(self.z)

    def __hash__(self):
        return hash(Ctx.cur.concretize(self.z))

    def __repr__(self):
        return "<SI %s>" % (str(self.z)[:60],)

    __str__ = __repr__

    def __format__(self, spec):
        # Only reached from un-lifted formatting (error messages in C helpers).  Inert placeholder.
        return "￼"

    def __int__(self):
        return self.__index__()

    def __float__(self):
        return _float(self.__index__())

    def __round__(self, nd=None):
        return self

    def __trunc__(self):
        return self

    def __floor__(self):
        return self

    def __ceil__(self):
        return self

    def bit_length(self):
        return self.__index__().bit_length()

    def to_bytes(self, n=1, order="big", **kw):
        from .text import SymText

        if n != 1:
            raise Unsupported("to_bytes n != 1")
        return SymText("bytes", [self])

    @property
    def real(self):
        return self

    @property
    def numerator(self):
        return self


class SymReal:
    """Exact rational arithmetic standing in for Python floats (see DESIGN 3.1 for the stated assumption)."""

    __slots__ = ("z",)

    def __init__(self, z):
        self.z = z

    def _o(self, o):
        r = _zr(o)
        if r is None:
            raise Unsupported("real arithmetic with %r" % type(o).__name__)
        return r

    def __add__(self, o):
        return SymReal(self.z + self._o(o))

    __radd__ = __add__

    def __sub__(self, o):
        return SymReal(self.z - self._o(o))

    def __rsub__(self, o):
        return SymReal(self._o(o) - self.z)

    def __mul__(self, o):
        return SymReal(self.z * self._o(o))

    __rmul__ = __mul__

    def __truediv__(self, o):
        r = self._o(o)
        if SymBool(r == 0):
            raise ZeroDivisionError("float division by zero")
        return SymReal(self.z / r)

    def __rtruediv__(self, o):
        if SymBool(self.z == 0):
            raise ZeroDivisionError("float division by zero")
        return SymReal(self._o(o) / self.z)

    def __floordiv__(self, o):
        return (self / o).floor_real()

    def __neg__(self):
        return SymReal(-self.z)

    def __pos__(self):
        return self

    def __abs__(self):
        return SymReal(z3.If(self.z >= 0, self.z, -self.z))

    def __lt__(self, o):
        return SymBool(self.z < self._o(o))

    def __le__(self, o):
        return SymBool(self.z <= self._o(o))

    def __gt__(self, o):
        return SymBool(self.z > self._o(o))

    def __ge__(self, o):
        return SymBool(self.z >= self._o(o))

    def __eq__(self, o):
        r = _zr(o)
        return False if r is None else SymBool(self.z == r)

    def __ne__(self, o):
        r = _zr(o)
        return True if r is None else SymBool(self.z != r)

    def __hash__(self):
        raise Unsupported("hash of a symbolic real")

    def __bool__(self):
        return Ctx.cur.branch(self.z != 0)

    def floor(self):
        return SymInt(z3.ToInt(self.z))

    def floor_real(self):
        return SymReal(z3.ToReal(z3.ToInt(self.z)))

    def trunc(self):
        fl = z3.ToInt(self.z)
        return SymInt(z3.If(self.z >= 0, fl, z3.If(z3.ToReal(fl) == self.z, fl, fl + 1)))

    def ceil(self):
        fl = z3.ToInt(self.z)
        return SymInt(z3.If(z3.ToReal(fl) == self.z, fl, fl + 1))

    def round_half_even(self):
        fl = z3.ToInt(self.z)
        frac = self.z - z3.ToReal(fl)
        half = z3.RealVal("1/2")
        return SymInt(z3.If(frac < half, fl, z3.If(frac > half, fl + 1, z3.If(fl % 2 == 0, fl, fl + 1))))

    __trunc__ = trunc
    __floor__ = floor
    __ceil__ = ceil

    def __int__(self):
        raise Unsupported("int(SymReal) outside lifted code")

    def __round__(self, nd=None):
        if nd is None:
            return self.round_half_even()
        raise Unsupported("round(real, ndigits)")

    def __float__(self):
        raise Unsupported("float(SymReal) outside lifted code")

    def __format__(self, spec):
        return "￼"

    def __repr__(self):
        return "<SR %s>" % (str(self.z)[:60],)


# ------------------------------------------------------------------------------------------------------------
# fork-free helpers usable on proxies and on concrete values alike


def And(*xs):
    sym = [x for x in xs if _isinstance(x, (SymBool, z3.ExprRef))]
    for x in xs:
        if not _isinstance(x, (SymBool, z3.ExprRef)) and not x:
            return False
    if not sym:
        return True
    return SymBool(z3.And(*[_b(x) for x in sym]))


def Or(*xs):
    sym = [x for x in xs if _isinstance(x, (SymBool, z3.ExprRef))]
    for x in xs:
        if not _isinstance(x, (SymBool, z3.ExprRef)) and x:
            return True
    if not sym:
        return False
    return SymBool(z3.Or(*[_b(x) for x in sym]))


def Not(x):
    if _isinstance(x, (SymBool, z3.ExprRef)):
        return SymBool(z3.Not(_b(x)))
    return not x


def Implies(a, b):
    return Or(Not(a), b)


def Iff(a, b):
    return And(Implies(a, b), Implies(b, a))


def Ite(c, a, b):
    if not _isinstance(c, (SymBool, z3.ExprRef)):
        return a if c else b
    if _isinstance(a, (SymBool,)) or _isinstance(b, (SymBool,)) or _isinstance(a, bool) and _isinstance(b, bool):
        return SymBool(z3.If(_b(c), _b(a), _b(b)))
    if _isinstance(a, (SymReal, _float)) or _isinstance(b, (SymReal, _float)):
        return SymReal(z3.If(_b(c), _zr(a), _zr(b)))
    return SymInt(z3.If(_b(c), _z(a), _z(b)))


def is_sym(x):
    return _isinstance(x, (SymInt, SymBool, SymReal))


def sym_max(*a, **kw):
    if len(a) == 1:
        a = (list(a[0]),)
    items = a[0] if len(a) == 1 else a
    if "key" in kw or not any(_isinstance(x, (SymInt, SymReal, SymBool)) for x in items):
        return builtins.max(*a, **kw)
    if not items:
        if "default" in kw:
            return kw["default"]
        raise ValueError("max() arg is an empty sequence")
    r = items[0]
    for x in items[1:]:
        if _isinstance(r, (SymReal, _float)) or _isinstance(x, (SymReal, _float)):
            rz, xz = _zr(r), _zr(x)
            r = SymReal(z3.If(xz > rz, xz, rz))
        else:
            rz, xz = _z(r), _z(x)
            r = SymInt(z3.If(xz > rz, xz, rz))
    return r


def sym_min(*a, **kw):
    if len(a) == 1:
        a = (list(a[0]),)
    items = a[0] if len(a) == 1 else a
    if "key" in kw or not any(_isinstance(x, (SymInt, SymReal, SymBool)) for x in items):
        return builtins.min(*a, **kw)
    if not items:
        if "default" in kw:
            return kw["default"]
        raise ValueError("min() arg is an empty sequence")
    r = items[0]
    for x in items[1:]:
        if _isinstance(r, (SymReal, _float)) or _isinstance(x, (SymReal, _float)):
            rz, xz = _zr(r), _zr(x)
            r = SymReal(z3.If(xz < rz, xz, rz))
        else:
            rz, xz = _z(r), _z(x)
            r = SymInt(z3.If(xz < rz, xz, rz))
    return r


def sym_abs(x):
    return x.__abs__() if _isinstance(x, (SymInt, SymReal)) else builtins.abs(x)


def sym_int(x=0, *a):
    if _isinstance(x, SymReal):
        return x.trunc()
    if _isinstance(x, SymInt):
        return x
    if _isinstance(x, SymBool):
        return x._i()
    to_int = getattr(x, "__sym_to_int__", None)
    if to_int is not None:
        return to_int(*a)
    return _int(x, *a)


def sym_float(x=0.0):
    if _isinstance(x, SymReal):
        return x
    if _isinstance(x, SymInt):
        return SymReal(z3.ToReal(x.z))
    return _float(x)


def sym_round(x, nd=None):
    if _isinstance(x, SymReal):
        return x.__round__(nd)
    if _isinstance(x, SymInt):
        return x
    return builtins.round(x) if nd is None else builtins.round(x, nd)


def sym_sum(xs, start=0):
    r = start
    for x in xs:
        r = r + x
    return r


def sym_bool(x=False):
    if _isinstance(x, SymBool):
        return x
    if _isinstance(x, SymInt):
        return SymBool(x.z != 0)
    return builtins.bool(x)


def sym_divmod(a, b):
    if _isinstance(a, (SymInt, SymReal)) or _isinstance(b, (SymInt, SymReal)):
        return (a // b, a % b)
    return builtins.divmod(a, b)
