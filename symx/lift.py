"""AST lifting of urwid source (regenerated from the working tree on every import; see DESIGN 3.3)."""
from __future__ import annotations

import ast
import builtins

from . import core, text
from .core import SymBool, SymInt, SymReal, Unsupported
from .text import SymText

_isinstance = builtins.isinstance


class Lift(ast.NodeTransformer):
    CALLS = {
        "isinstance": "__sym_isinstance__",
        "int": "__sym_int__",
        "float": "__sym_float__",
        "ord": "__sym_ord__",
        "chr": "__sym_chr__",
        "max": "__sym_max__",
        "min": "__sym_min__",
        "bytes": "__sym_bytes__",
        "str": "__sym_str__",
        "round": "__sym_round__",
        "abs": "__sym_abs__",
        "sum": "__sym_sum__",
        "bool": "__sym_bool__",
        "divmod": "__sym_divmod__",
        "format": "__sym_format__",
    }

    def visit_Compare(self, node):
        self.generic_visit(node)
        if (
            len(node.ops) == 1
            and _isinstance(node.ops[0], (ast.In, ast.NotIn))
            and _isinstance(node.comparators[0], ast.Constant)
            and _isinstance(node.comparators[0].value, (str, bytes))
        ):
            call = ast.Call(ast.Name("__sym_contains__", ast.Load()), [node.comparators[0], node.left], [])
            if _isinstance(node.ops[0], ast.NotIn):
                call = ast.Call(ast.Name("__sym_not__", ast.Load()), [call], [])
            return ast.copy_location(call, node)
        if (
            len(node.ops) == 1
            and _isinstance(node.ops[0], (ast.In, ast.NotIn))
            and _isinstance(node.comparators[0], (ast.Set, ast.Tuple, ast.List))
            and not any(_isinstance(e, ast.Starred) for e in node.comparators[0].elts)
        ):
            call = ast.Call(
                ast.Name("__sym_in__", ast.Load()), [node.left, ast.Tuple(node.comparators[0].elts, ast.Load())], []
            )
            if _isinstance(node.ops[0], ast.NotIn):
                call = ast.Call(ast.Name("__sym_not__", ast.Load()), [call], [])
            return ast.copy_location(call, node)
        if len(node.ops) == 1 and _isinstance(node.ops[0], (ast.In, ast.NotIn)):
            # general membership: dispatched at run time (plain `in` unless the left operand is a proxy)
            call = ast.Call(ast.Name("__sym_in2__", ast.Load()), [node.left, node.comparators[0]], [])
            if _isinstance(node.ops[0], ast.NotIn):
                call = ast.Call(ast.Name("__sym_not__", ast.Load()), [call], [])
            return ast.copy_location(call, node)
        return node

    def visit_Call(self, node):
        self.generic_visit(node)
        f = node.func
        if (
            _isinstance(f, ast.Attribute)
            and f.attr == "join"
            and _isinstance(f.value, ast.Constant)
            and len(node.args) == 1
            and not node.keywords
        ):
            return ast.copy_location(ast.Call(ast.Name("__sym_join__", ast.Load()), [f.value, node.args[0]], []), node)
        if _isinstance(f, ast.Name) and f.id in self.CALLS:
            node.func = ast.copy_location(ast.Name(self.CALLS[f.id], ast.Load()), f)
        return node

    def visit_BinOp(self, node):
        self.generic_visit(node)
        if _isinstance(node.op, ast.Mod) and _isinstance(node.left, ast.Constant) and _isinstance(node.left.value, (str, bytes)):
            return ast.copy_location(ast.Call(ast.Name("__sym_fmt__", ast.Load()), [node.left, node.right], []), node)
        return node

    def visit_JoinedStr(self, node):
        self.generic_visit(node)
        parts = []
        for v in node.values:
            if _isinstance(v, ast.Constant):
                parts.append(v)
            else:
                spec = v.format_spec if v.format_spec is not None else ast.Constant("")
                if _isinstance(spec, ast.JoinedStr):
                    if all(_isinstance(x, ast.Constant) for x in spec.values):
                        spec = ast.Constant("".join(x.value for x in spec.values))
                    else:
                        return node  # dynamic format spec: leave the f-string alone
                parts.append(ast.Tuple([v.value, ast.Constant(v.conversion), spec], ast.Load()))
        return ast.copy_location(ast.Call(ast.Name("__sym_fstr__", ast.Load()), [ast.List(parts, ast.Load())], []), node)


def lift_source(src, path):
    tree = ast.parse(src, path)
    tree = Lift().visit(tree)
    ast.fix_missing_locations(tree)
    return compile(tree, path, "exec", dont_inherit=True)


class Rope:
    """Symbolic formatted string: list of str | (value, conv, spec).  Compares symbolically with another rope of
    the same shape; otherwise inert (error messages)."""

    def __init__(self, parts):
        self.parts = parts

    def _flat(self):
        out = []
        for p in self.parts:
            if _isinstance(p, str):
                if out and _isinstance(out[-1], str):
                    out[-1] += p
                else:
                    out.append(p)
            else:
                out.append(p)
        return out

    def _match_str(self, s):
        """Condition under which this rope renders exactly the concrete string s (False if impossible)."""
        parts = self._flat()

        def rec(i, p, conds):
            if i == len(parts):
                return core.And(*conds) if p == len(s) else False
            part = parts[i]
            if _isinstance(part, str):
                if s[p:p + len(part)] != part:
                    return False
                return rec(i + 1, p + len(part), conds)
            val, conv, spec = part
            if _isinstance(val, SymText):
                n = len(val)
                if spec != "" or conv not in (-1, 115):
                    raise Unsupported("rope match: formatted text field")
                return rec(i + 1, p + n, conds + [val == s[p:p + n]]) if p + n <= len(s) else False
            if not _isinstance(val, (SymInt, SymBool)):
                raise Unsupported("rope match: field of type %s" % type(val).__name__)
            if spec == "c":
                if p >= len(s):
                    return False
                return rec(i + 1, p + 1, conds + [val == ord(s[p])])
            if spec in ("d", ""):
                alts = []
                q = p
                if q < len(s) and s[q] == "-":
                    q += 1
                start = q
                while q < len(s) and s[q].isdigit() and s[q].isascii():
                    q += 1
                    txt = s[p:q]
                    if len(txt.lstrip("-")) > 1 and txt.lstrip("-")[0] == "0":
                        break
                    r = rec(i + 1, q, conds + [val == int(txt)])
                    if r is not False:
                        alts.append(r)
                return core.Or(*alts) if alts else False
            raise Unsupported("rope match: spec %r" % (spec,))

        return rec(0, 0, [])

    def find(self, sub, *a):
        """Position of a constant substring; fields are single characters / numbers and cannot contain letters."""
        if a or not _isinstance(sub, str) or not sub or sub.strip("0123456789-") == "":
            raise Unsupported("rope find")
        pos = 0
        known = True
        for part in self._flat():
            if _isinstance(part, str):
                k = part.find(sub)
                if k >= 0:
                    if not known:
                        return 1  # found; the exact offset is not determined (callers only test >= 0)
                    return pos + k
                pos += len(part)
            else:
                val, conv, spec = part
                if _isinstance(val, SymText):
                    if len(sub) <= len(val):
                        raise Unsupported("rope find: substring may lie inside a symbolic text field")
                    pos += len(val)
                elif spec == "c":
                    if len(sub) == 1:
                        raise Unsupported("rope find: single character")
                    pos += 1
                else:
                    known = False
        return -1

    def __contains__(self, sub):
        return self.find(sub) >= 0

    def startswith(self, p):
        parts = self._flat()
        if parts and _isinstance(parts[0], str) and (len(parts[0]) >= len(p) or not parts[0].startswith(p[:len(parts[0])]) ):
            return parts[0].startswith(p)
        raise Unsupported("rope startswith")

    def __eq__(self, o):
        if _isinstance(o, str):
            return self._match_str(o)
        if _isinstance(o, Rope):
            a, b = self._flat(), o._flat()
            if len(a) != len(b):
                raise Unsupported("rope eq (shape)")
            cs = []
            for x, y in zip(a, b):
                if _isinstance(x, str) or _isinstance(y, str):
                    if x != y:
                        if _isinstance(x, str) and _isinstance(y, str):
                            return False
                        raise Unsupported("rope eq (shape)")
                else:
                    if x[1:] != y[1:]:
                        raise Unsupported("rope eq (spec)")
                    cs.append(x[0] == y[0])
            return core.And(*cs)
        return False

    def __ne__(self, o):
        return core.Not(self == o)

    def __hash__(self):
        raise Unsupported("rope hash")

    def __add__(self, o):
        if _isinstance(o, Rope):
            return Rope(self.parts + o.parts)
        if _isinstance(o, str):
            return Rope(self.parts + [o])
        return NotImplemented

    def __radd__(self, o):
        if _isinstance(o, str):
            return Rope([o] + self.parts)
        return NotImplemented

    def __str__(self):
        return "".join(p if _isinstance(p, str) else "￼" for p in self.parts)

    __repr__ = __str__

    def __format__(self, spec):
        return str(self)

    def encode(self, *a, **k):
        return RopeBytes(self, a, k)

    def __len__(self):
        raise Unsupported("len(rope)")


class RopeBytes:
    """An encoded rope (bytes written to a terminal)."""

    def __init__(self, rope, a=(), k=None):
        self.rope = rope

    def __eq__(self, o):
        if _isinstance(o, RopeBytes):
            return self.rope == o.rope
        return False

    def __hash__(self):
        raise Unsupported("rope hash")

    def __repr__(self):
        return "b<" + str(self.rope) + ">"


def _is_symv(v):
    return _isinstance(v, (SymInt, SymReal, SymBool, SymText, Rope))


def sym_fstr(parts):
    if not any(_isinstance(p, tuple) and _is_symv(p[0]) for p in parts):
        out = []
        for p in parts:
            if _isinstance(p, str):
                out.append(p)
            else:
                v, conv, spec = p
                if conv == 114:
                    v = repr(v)
                elif conv == 115:
                    v = str(v)
                elif conv == 97:
                    v = ascii(v)
                out.append(format(v, spec))
        return "".join(out)
    flat = []
    for p in parts:
        if _isinstance(p, tuple) and _isinstance(p[0], Rope) and p[1] == -1 and p[2] == "":
            flat.extend(p[0].parts)
        elif _isinstance(p, tuple) and not _is_symv(p[0]):
            v, conv, spec = p
            if conv == 114:
                v = repr(v)
            elif conv == 115:
                v = str(v)
            elif conv == 97:
                v = ascii(v)
            try:
                flat.append(format(v, spec))
            except Exception:  # noqa: BLE001 - repr of containers holding proxies
                flat.append("￼")
        else:
            flat.append(p)
    return Rope(flat)


def sym_fmt(fmt, args):
    tup = args if _isinstance(args, tuple) else (args,)

    def has_sym(v):
        if _is_symv(v):
            return True
        if _isinstance(v, (tuple, list)):
            return any(has_sym(x) for x in v)
        return False

    if not any(has_sym(a) for a in tup) and not _isinstance(args, dict):
        return fmt % args
    if _isinstance(args, dict):
        if not any(has_sym(a) for a in args.values()):
            return fmt % args
    if _isinstance(fmt, bytes):
        raise Unsupported("bytes %-format of symbolic values")
    return Rope([("%", fmt, args)] if False else [fmt.replace("%", "￼")])


def sym_in(x, elts):
    r = False
    for e in elts:
        try:
            c = x == e
        except Unsupported:
            raise
        if _isinstance(c, SymBool):
            r = c if r is False else (r | c)
        elif c:
            return True
    return r


def sym_not(x):
    if _isinstance(x, SymBool):
        return ~x
    return not x


def sym_isinstance(x, t):
    if not _isinstance(t, tuple):
        tt = (t,)
    else:
        tt = t
    for c in tt:
        if _isinstance(c, tuple):
            if sym_isinstance(x, c):
                return True
            continue
        if c is builtins.int and _isinstance(x, (SymInt, SymBool)):
            return True
        if c is builtins.bool and _isinstance(x, SymBool):
            return True
        if c is builtins.float and _isinstance(x, SymReal):
            return True
        if c is builtins.str and _isinstance(x, SymText) and x.kind == "str":
            return True
        if c is builtins.str and _isinstance(x, Rope):
            return True
        if c is builtins.bytes and _isinstance(x, SymText) and x.kind == "bytes":
            return True
    return _isinstance(x, t)


def sym_format(v, spec=""):
    """format(v, 'x'/'d') of a symbolic integer that is provably a single digit becomes a symbolic character."""
    if _isinstance(v, SymInt):
        import z3

        from .text import _sb

        if spec in ("x", "d", "") and _sb(z3.And(v.z >= 0, v.z < (16 if spec == "x" else 10))):
            return SymText("str", [SymInt(z3.If(v.z < 10, 48 + v.z, 87 + v.z))])
        return format(v.__index__(), spec)
    return format(v, spec)


def sym_contains(const, x):
    """x in <str/bytes literal>"""
    if _isinstance(x, SymText):
        if len(x) == 0:
            return True
        if len(x) == 1:
            items = list(const) if _isinstance(const, bytes) else [ord(c) for c in const]
            return core.Or(*[x.cps[0] == c for c in items])
        items = list(const) if _isinstance(const, bytes) else [ord(c) for c in const]
        n = len(x)
        return core.Or(*[core.And(*[x.cps[k] == items[i + k] for k in range(n)]) for i in range(len(items) - n + 1)])
    if _isinstance(x, SymInt):
        return core.Or(*[x == c for c in const]) if _isinstance(const, bytes) else False
    return x in const


def sym_in2(x, container):
    if _isinstance(x, (SymText, SymInt)):
        if _isinstance(container, (str, bytes)):
            return sym_contains(container, x)
        if _isinstance(container, (list, tuple)) and not _isinstance(container, text.SymTable):
            return sym_in(x, tuple(container))
        if _isinstance(container, (set, frozenset)):
            return sym_in(x, tuple(container))
    return x in container


HELPERS = {
    "__sym_in2__": sym_in2,
    "__sym_contains__": sym_contains,
    "__sym_format__": sym_format,
    "__sym_join__": text.sym_join,
    "__sym_in__": sym_in,
    "__sym_not__": sym_not,
    "__sym_fstr__": sym_fstr,
    "__sym_fmt__": sym_fmt,
    "__sym_isinstance__": sym_isinstance,
    "__sym_int__": core.sym_int,
    "__sym_float__": core.sym_float,
    "__sym_ord__": text.sym_ord,
    "__sym_chr__": text.sym_chr,
    "__sym_max__": core.sym_max,
    "__sym_min__": core.sym_min,
    "__sym_bytes__": text.sym_bytes,
    "__sym_str__": text.sym_str,
    "__sym_round__": core.sym_round,
    "__sym_abs__": core.sym_abs,
    "__sym_sum__": core.sym_sum,
    "__sym_bool__": core.sym_bool,
    "__sym_divmod__": core.sym_divmod,
}
