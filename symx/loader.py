"""Import hook: load urwid.* from the repository working tree with the AST lifting applied (never cached)."""
from __future__ import annotations

import hashlib
import importlib.abc
import importlib.machinery
import os
import sys

from . import lift

REPO = os.environ.get("SYMX_REPO", "/repo")
SOURCE_HASHES = {}  # relative path -> sha1 of the source text that was lifted in this process


class LiftLoader(importlib.machinery.SourceFileLoader):
    def get_code(self, fullname):
        path = self.get_filename(fullname)
        src = self.get_data(path)
        SOURCE_HASHES[os.path.relpath(path, REPO)] = hashlib.sha1(src).hexdigest()[:12]
        return lift.lift_source(src, path)

    def exec_module(self, module):
        module.__dict__.update(lift.HELPERS)
        super().exec_module(module)


class Finder(importlib.abc.MetaPathFinder):
    def __init__(self, lifted):
        self.lifted = lifted

    def find_spec(self, fullname, path, target=None):
        if fullname != "urwid" and not fullname.startswith("urwid."):
            return None
        if path is None:
            path = [REPO]
        spec = importlib.machinery.PathFinder.find_spec(fullname, path)
        if spec is None or not isinstance(spec.loader, importlib.machinery.SourceFileLoader):
            return spec
        if self.lifted:
            spec.loader = LiftLoader(spec.loader.name, spec.loader.path)
        return spec


_installed = None


def install(lifted=True):
    """Make `import urwid` resolve to REPO/urwid; lifted=True applies the AST rewrite."""
    global _installed
    if _installed is not None:
        assert _installed == lifted
        return
    assert "urwid" not in sys.modules, "urwid imported before the loader was installed"
    sys.dont_write_bytecode = True
    sys.meta_path.insert(0, Finder(lifted))
    _installed = lifted
