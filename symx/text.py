"""Symbolic text: str-/bytes-like proxies with concrete length and symbolic code points / byte values."""
from __future__ import annotations

import builtins

import z3

from .core import Ctx, SymBool, SymInt, SymReal, Unsupported, _b, _z

_isinstance = builtins.isinstance
_ord = builtins.ord
_chr = builtins.chr
_bytes = builtins.bytes
_str = builtins.str
_len = builtins.len


def _cidx(v):
    if v is None:
        return None
    if _isinstance(v, SymInt):
        return v.__index__()
    return v


def _sb(cond):
    """Decide a z3 condition on the current path (fork if needed)."""
    cond = z3.simplify(cond)
    if z3.is_true(cond):
        return True
    if z3.is_false(cond):
        return False
    return bool(SymBool(cond))


class SymText:
    """kind 'str' or 'bytes'; cps: list of SymInt|int; concrete length."""

    __slots__ = ("kind", "cps")

    def __init__(self, kind, cps):
        self.kind = kind
        self.cps = list(cps)

    def __len__(self):
        return _len(self.cps)

    def __bool__(self):
        return _len(self.cps) > 0

    def _wrap(self, cps):
        return SymText(self.kind, cps)

    def is_concrete(self):
        return not any(_isinstance(c, SymInt) for c in self.cps)

    def concrete(self):
        """Concrete str/bytes (concretising every symbolic position)."""
        vals = [_cidx(c) for c in self.cps]
        return _bytes(vals) if self.kind == "bytes" else "".join(_chr(v) for v in vals)

    def __getitem__(self, i):
        if _isinstance(i, slice):
            return self._wrap(self.cps[slice(_cidx(i.start), _cidx(i.stop), _cidx(i.step))])
        c = self.cps[_cidx(i)]
        return c if self.kind == "bytes" else self._wrap([c])

    def __iter__(self):
        for i in range(_len(self.cps)):
            yield self[i]

    def _other(self, o):
        if _isinstance(o, SymText):
            return o.cps if o.kind == self.kind else None
        if self.kind == "str" and _isinstance(o, _str):
            return [_ord(c) for c in o]
        if self.kind == "bytes" and _isinstance(o, (_bytes, bytearray)):
            return list(o)
        return None

    def __eq__(self, o):
        oc = self._other(o)
        if oc is None or _len(oc) != _len(self.cps):
            return False
        if not oc:
            return True
        return SymBool(z3.And(*[_z(a) == _z(b) for a, b in zip(self.cps, oc)]))

    def __ne__(self, o):
        r = self.__eq__(o)
        return (not r) if _isinstance(r, bool) else ~r

    def __hash__(self):
        return hash(self.concrete())

    def __add__(self, o):
        oc = self._other(o)
        if oc is None:
            return NotImplemented
        return self._wrap(self.cps + list(oc))

    def __radd__(self, o):
        oc = self._other(o)
        if oc is None:
            return NotImplemented
        return self._wrap(list(oc) + self.cps)

    def __mul__(self, n):
        return self._wrap(self.cps * _cidx(n))

    __rmul__ = __mul__

    def __contains__(self, sub):
        return self.find(sub) >= 0

    def __repr__(self):
        return "<T%s %d>" % (self.kind, _len(self.cps))

    __str__ = __repr__

    def __format__(self, spec):
        return "￼"

    # searching ---------------------------------------------------------------------------------------------
    def _match_at(self, j, sc):
        return z3.And(*[_z(self.cps[j + k]) == _z(sc[k]) for k in range(_len(sc))]) if sc else z3.BoolVal(True)

    def find(self, sub, start=0, end=None):
        sc = self._other(sub) if not _isinstance(sub, (_int_t, SymInt)) else [sub]
        start = _cidx(start) or 0
        n = _len(self.cps) if end is None else builtins.min(_cidx(end), _len(self.cps))
        if start < 0:
            start = builtins.max(0, _len(self.cps) + start)
        for j in range(start, n - _len(sc) + 1):
            if _sb(self._match_at(j, sc)):
                return j
        return -1

    def rfind(self, sub, start=0, end=None):
        sc = self._other(sub) if not _isinstance(sub, (_int_t, SymInt)) else [sub]
        start = _cidx(start) or 0
        n = _len(self.cps) if end is None else builtins.min(_cidx(end), _len(self.cps))
        for j in range(n - _len(sc), start - 1, -1):
            if _sb(self._match_at(j, sc)):
                return j
        return -1

    def index(self, sub, *a):
        r = self.find(sub, *a)
        if r < 0:
            raise ValueError("substring not found")
        return r

    def count(self, sub):
        sc = self._other(sub)
        n = 0
        j = 0
        while j <= _len(self.cps) - _len(sc):
            if _sb(self._match_at(j, sc)):
                n += 1
                j += builtins.max(1, _len(sc))
            else:
                j += 1
        return n

    def startswith(self, p):
        if _isinstance(p, tuple):
            return any(self.startswith(x) for x in p)
        pc = self._other(p)
        if _len(pc) > _len(self.cps):
            return False
        return _sb(self._match_at(0, pc))

    def endswith(self, p):
        if _isinstance(p, tuple):
            return any(self.endswith(x) for x in p)
        pc = self._other(p)
        if _len(pc) > _len(self.cps):
            return False
        return _sb(self._match_at(_len(self.cps) - _len(pc), pc))

    # editing -----------------------------------------------------------------------------------------------
    def _in_set(self, c, chars):
        if chars is None:
            ws = (9, 10, 11, 12, 13, 32) if self.kind == "bytes" else (9, 10, 11, 12, 13, 28, 29, 30, 31, 32, 133, 160)
            return z3.Or(*[_z(c) == w for w in ws])
        cs = self._other(chars)
        return z3.Or(*[_z(c) == _z(x) for x in cs]) if cs else z3.BoolVal(False)

    def rstrip(self, chars=None):
        n = _len(self.cps)
        while n > 0 and _sb(self._in_set(self.cps[n - 1], chars)):
            n -= 1
        return self._wrap(self.cps[:n])

    def lstrip(self, chars=None):
        i = 0
        while i < _len(self.cps) and _sb(self._in_set(self.cps[i], chars)):
            i += 1
        return self._wrap(self.cps[i:])

    def strip(self, chars=None):
        return self.rstrip(chars).lstrip(chars)

    def translate(self, table):
        if _isinstance(table, dict) and any(v is None or (not _isinstance(v, builtins.int) and _len(v) != 1) for v in table.values()):
            return self._translate_multi(table)
        out = []
        for c in self.cps:
            if _isinstance(c, SymInt):
                z = c.z
                e = z
                if _isinstance(table, (_bytes, bytearray)):
                    for k in range(255, -1, -1):
                        if table[k] != k:
                            e = z3.If(z == k, table[k], e)
                else:
                    for k, v in table.items():
                        if v is None or (not _isinstance(v, builtins.int) and _len(v) != 1):
                            raise Unsupported("translate: deleting/multi-char table entry")
                        e = z3.If(z == k, v if _isinstance(v, builtins.int) else _ord(v), e)
                out.append(SymInt(e))
            else:
                if _isinstance(table, (_bytes, bytearray)):
                    out.append(table[c])
                else:
                    v = table.get(c, c)
                    out.append(v if _isinstance(v, builtins.int) else _ord(v))
        return self._wrap(out)

    def _translate_multi(self, table):
        """str.translate with a table whose entries may be strings of any length / None: forks per character."""
        out = []
        keys = list(table.keys())
        for c in self.cps:
            if not _isinstance(c, SymInt):
                v = table.get(c, c)
                if v is None:
                    continue
                out += [v] if _isinstance(v, builtins.int) else [_ord(x) for x in v]
                continue
            hit = None
            if _sb(z3.Or(*[c.z == k for k in keys])):
                for k in keys:
                    if _sb(c.z == k):
                        hit = k
                        break
            if hit is None:
                out.append(c)
            else:
                v = table[hit]
                if v is None:
                    continue
                out += [v] if _isinstance(v, builtins.int) else [_ord(x) for x in v]
        return self._wrap(out)

    def split(self, sep=None, maxsplit=-1):
        if sep is None:
            raise Unsupported("split on whitespace")
        sc = self._other(sep)
        if _len(sc) != 1:
            raise Unsupported("split on multi-char separator")
        parts = []
        cur = []
        for c in self.cps:
            if (maxsplit < 0 or _len(parts) < maxsplit) and _sb(_z(c) == _z(sc[0])):
                parts.append(self._wrap(cur))
                cur = []
            else:
                cur.append(c)
        parts.append(self._wrap(cur))
        return parts

    def splitlines(self, keepends=False):
        """str.splitlines / bytes.splitlines (forks per character on the line-boundary set)."""
        if self.kind == "str":
            seps = (10, 11, 12, 13, 0x1C, 0x1D, 0x1E, 0x85, 0x2028, 0x2029)
        else:
            seps = (10, 13)
        lines = []
        cur = []
        i = 0
        n = _len(self.cps)
        while i < n:
            c = self.cps[i]
            zc = _z(c)
            if _sb(z3.Or(*[zc == s_ for s_ in seps])):
                end = [c]
                if i + 1 < n and _sb(zc == 13) and _sb(_z(self.cps[i + 1]) == 10):
                    end.append(self.cps[i + 1])
                    i += 1
                lines.append(self._wrap(cur + (end if keepends else [])))
                cur = []
            else:
                cur.append(c)
            i += 1
        if cur:
            lines.append(self._wrap(cur))
        return lines

    def replace(self, old, new):
        oc = self._other(old)
        nc = self._other(new)
        out = []
        i = 0
        n = _len(self.cps)
        while i < n:
            if oc and i + _len(oc) <= n and _sb(self._match_at(i, oc)):
                out += list(nc)
                i += _len(oc)
            else:
                out.append(self.cps[i])
                i += 1
        return self._wrap(out)

    def join(self, parts):
        out = []
        for k, p in enumerate(parts):
            if k:
                out += self.cps
            oc = self._other(p)
            if oc is None:
                raise TypeError("sequence item: expected %s instance" % self.kind)
            out += oc
        return self._wrap(out)

    def ljust(self, w, fill=None):
        w = _cidx(w)
        f = 32 if fill is None else self._other(fill)[0]
        return self._wrap(self.cps + [f] * builtins.max(0, w - _len(self.cps)))

    def rjust(self, w, fill=None):
        w = _cidx(w)
        f = 32 if fill is None else self._other(fill)[0]
        return self._wrap([f] * builtins.max(0, w - _len(self.cps)) + self.cps)

    def isdigit(self):
        if not self.cps:
            return False
        return _sb(z3.And(*[z3.And(_z(c) >= 48, _z(c) <= 57) for c in self.cps]))

    def __sym_to_int__(self, base=10):
        """int(text, base) for base 10 / 16 over ASCII text, following CPython: surrounding ASCII whitespace, one
        sign, an optional 0x prefix (base 16), single underscores between digits.  Non-ASCII characters (Unicode
        digits / spaces) are not modelled: Unsupported."""
        if base not in (10, 16):
            raise Unsupported("int(text, base=%r)" % (base,))
        cps = [_z(c) for c in self.cps]
        bad = ValueError("invalid literal for int() with base %d" % base)
        for c in cps:
            if _sb(c > 127):
                raise Unsupported("int() of non-ASCII text")

        def ws(c):
            return _sb(z3.Or(c == 32, z3.And(c >= 9, c <= 13)))

        while cps and ws(cps[0]):
            cps = cps[1:]
        while cps and ws(cps[-1]):
            cps = cps[:-1]
        if not cps:
            raise bad
        neg = False
        if _sb(cps[0] == 45):
            neg = True
            cps = cps[1:]
        elif _sb(cps[0] == 43):
            cps = cps[1:]
        if not cps:
            raise bad
        lead_us_ok = False
        if base == 16 and _len(cps) >= 2 and _sb(cps[0] == 48) and _sb(z3.Or(cps[1] == 120, cps[1] == 88)):
            cps = cps[2:]
            lead_us_ok = True
            if not cps:
                raise bad

        def digit(c):
            """digit value as a z3 term, or None (forks on the character class)"""
            if _sb(z3.And(c >= 48, c <= 57)):
                return c - 48
            if base == 16:
                if _sb(z3.And(c >= 97, c <= 102)):
                    return c - 87
                if _sb(z3.And(c >= 65, c <= 70)):
                    return c - 55
            return None

        val = z3.IntVal(0)
        prev_digit = False
        ndig = 0
        for k, c in enumerate(cps):
            if _sb(c == 95):
                if not (prev_digit or (lead_us_ok and k == 0)):
                    raise bad
                prev_digit = False
                continue
            d = digit(c)
            if d is None:
                raise bad
            val = val * base + d
            prev_digit = True
            ndig += 1
        if not prev_digit or ndig == 0:
            raise bad
        return SymInt(-val if neg else val)

    # codecs ------------------------------------------------------------------------------------------------
    def encode(self, enc="utf-8", errors="strict"):
        if self.kind != "str":
            raise AttributeError("'bytes' object has no attribute 'encode'")
        e = enc.lower().replace("-", "").replace("_", "")
        if e == "utf8":
            return _enc_utf8(self, errors)
        if e in ("ascii", "usascii"):
            return _enc_limit(self, 128, errors, "ascii")
        if e in ("latin1", "iso88591"):
            return _enc_limit(self, 256, errors, "latin-1")
        raise Unsupported("encode " + enc)

    def decode(self, enc="utf-8", errors="strict"):
        if self.kind != "bytes":
            raise AttributeError("'str' object has no attribute 'decode'")
        e = enc.lower().replace("-", "").replace("_", "")
        if e == "utf8":
            return _dec_utf8(self, errors)
        if e in ("ascii", "usascii"):
            return _dec_limit(self, 128, errors)
        if e in ("latin1", "iso88591"):
            return SymText("str", self.cps)
        if e in ("eucjp", "eucjis2004", "euckr", "gb2312", "gbk", "big5") and _len(self.cps) == 2 and errors == "strict":
            return _dec_dbcs(self, enc)
        raise Unsupported("decode " + enc)


_int_t = builtins.int


DEC_OK = z3.Function("DBCS_OK", z3.IntSort(), z3.IntSort(), z3.BoolSort())
DEC_CP = z3.Function("DBCS_CP", z3.IntSort(), z3.IntSort(), z3.IntSort())
# byte pairs with their real decoding, used to make witnesses replayable (checked against the codec when used)
DBCS_KNOWN = {"eucjp": [(0xB0, 0xA1, 0x4E9C), (0xB0, 0xA2, 0x5516), (0x8E, 0xB1, 0xFF71), (0xF4, 0xA6, 0x7199), (0xA2, 0xAF, None), (0xFE, 0xFE, None), (0xA9, 0xA1, None)]}


def _dec_dbcs(t, enc):
    """Two bytes through a double-byte codec: the codec itself is not modelled - validity and the resulting
    character are uninterpreted functions of the two bytes (any codec behaviour is covered); witnesses are pinned
    to byte pairs whose real decoding is known so that they replay."""
    b0, b1 = _z(t.cps[0]), _z(t.cps[1])
    ctx = Ctx.cur
    rec = ctx.apps.setdefault("DBCS", (None, []))
    rec[1].append((b0, b1))
    cp = DEC_CP(b0, b1)
    ctx.add_axiom(z3.And(cp >= 0x80, cp <= 0x10FFFF, z3.Or(cp < 0xD800, cp > 0xDFFF)))
    if _sb(DEC_OK(b0, b1)):
        return SymText("str", [SymInt(cp)])
    raise UnicodeDecodeError(enc, b"??", 0, 2, "illegal multibyte sequence")


def dbcs_refine(ctx, enc="eucjp"):
    rec = ctx.apps.get("DBCS")
    if not rec:
        return []
    out = []
    for b0, b1 in rec[1]:
        alts = []
        for a, b, cp in DBCS_KNOWN[enc]:
            real = None
            try:
                real = _ord(_bytes((a, b)).decode("euc-jp"))
            except UnicodeDecodeError:
                pass
            assert real == cp, (a, b, real, cp)
            if cp is None:
                alts.append(z3.And(b0 == a, b1 == b, z3.Not(DEC_OK(b0, b1))))
            else:
                alts.append(z3.And(b0 == a, b1 == b, DEC_OK(b0, b1), DEC_CP(b0, b1) == cp))
        out.append(z3.Or(*alts))
    return out


def _enc_limit(t, lim, errors, name):
    out = []
    for i, c in enumerate(t.cps):
        if _isinstance(c, SymInt):
            if _sb(c.z >= lim):
                if errors == "replace":
                    out.append(63)
                    continue
                if errors == "ignore":
                    continue
                raise UnicodeEncodeError(name, "?", i, i + 1, "ordinal not in range")
            out.append(c)
        else:
            if c >= lim:
                if errors == "replace":
                    out.append(63)
                    continue
                if errors == "ignore":
                    continue
                raise UnicodeEncodeError(name, "?", i, i + 1, "ordinal not in range")
            out.append(c)
    return SymText("bytes", out)


def _dec_limit(t, lim, errors):
    out = []
    for i, c in enumerate(t.cps):
        if _sb(_z(c) >= lim):
            if errors == "replace":
                out.append(0xFFFD)
                continue
            if errors == "ignore":
                continue
            raise UnicodeDecodeError("ascii", b"?", i, i + 1, "ordinal not in range(128)")
        out.append(c)
    return SymText("str", out)


def _enc_utf8(t, errors="strict"):
    out = []
    for i, c in enumerate(t.cps):
        if not _isinstance(c, SymInt):
            try:
                out.extend(_chr(c).encode("utf-8", errors))
            except UnicodeEncodeError:
                raise
            continue
        z = c.z
        if _sb(z < 0x80):
            out.append(c)
        elif _sb(z < 0x800):
            out += [SymInt(0xC0 + z / 64), SymInt(0x80 + z % 64)]
        elif _sb(z < 0x10000):
            if _sb(z3.And(z >= 0xD800, z <= 0xDFFF)):
                if errors == "replace":
                    out.append(63)
                    continue
                if errors == "ignore":
                    continue
                raise UnicodeEncodeError("utf-8", "?", i, i + 1, "surrogates not allowed")
            out += [SymInt(0xE0 + z / 4096), SymInt(0x80 + (z / 64) % 64), SymInt(0x80 + z % 64)]
        else:
            out += [
                SymInt(0xF0 + z / 262144),
                SymInt(0x80 + (z / 4096) % 64),
                SymInt(0x80 + (z / 64) % 64),
                SymInt(0x80 + z % 64),
            ]
    return SymText("bytes", out)


def _dec_utf8(t, errors="strict"):
    """CPython's UTF-8 decoder (strict / replace with maximal-subpart replacement)."""
    out = []
    i = 0
    b = t.cps
    n = _len(b)

    def rng(k, lo, hi):
        if k >= n:
            return False
        v = _z(b[k])
        return _sb(z3.And(v >= lo, v <= hi))

    def bad(i, j):
        # invalid sequence b[i:j]
        if errors == "replace":
            out.append(0xFFFD)
            return j
        if errors == "ignore":
            return j
        raise UnicodeDecodeError("utf-8", b"?", i, j, "invalid utf-8")

    while i < n:
        z = _z(b[i])
        if rng(i, 0, 0x7F):
            out.append(b[i])
            i += 1
        elif rng(i, 0xC2, 0xDF):
            if not rng(i + 1, 0x80, 0xBF):
                i = bad(i, i + 1)
                continue
            out.append(SymInt((z - 0xC0) * 64 + (_z(b[i + 1]) - 0x80)))
            i += 2
        elif rng(i, 0xE0, 0xEF):
            # second byte range depends on the lead byte
            if rng(i, 0xE0, 0xE0):
                ok2 = rng(i + 1, 0xA0, 0xBF)
            elif rng(i, 0xED, 0xED):
                ok2 = rng(i + 1, 0x80, 0x9F)
            else:
                ok2 = rng(i + 1, 0x80, 0xBF)
            if not ok2:
                i = bad(i, i + 1)
                continue
            if not rng(i + 2, 0x80, 0xBF):
                i = bad(i, i + 2)
                continue
            out.append(SymInt((z - 0xE0) * 4096 + (_z(b[i + 1]) - 0x80) * 64 + (_z(b[i + 2]) - 0x80)))
            i += 3
        elif rng(i, 0xF0, 0xF4):
            if rng(i, 0xF0, 0xF0):
                ok2 = rng(i + 1, 0x90, 0xBF)
            elif rng(i, 0xF4, 0xF4):
                ok2 = rng(i + 1, 0x80, 0x8F)
            else:
                ok2 = rng(i + 1, 0x80, 0xBF)
            if not ok2:
                i = bad(i, i + 1)
                continue
            if not rng(i + 2, 0x80, 0xBF):
                i = bad(i, i + 2)
                continue
            if not rng(i + 3, 0x80, 0xBF):
                i = bad(i, i + 3)
                continue
            out.append(
                SymInt(
                    (z - 0xF0) * 262144
                    + (_z(b[i + 1]) - 0x80) * 4096
                    + (_z(b[i + 2]) - 0x80) * 64
                    + (_z(b[i + 3]) - 0x80)
                )
            )
            i += 4
        else:
            i = bad(i, i + 1)
    return SymText("str", out)


# ------------------------------------------------------------------------------------------------------------
# lifted builtins on text


def sym_ord(c):
    if _isinstance(c, SymText):
        if _len(c.cps) != 1:
            raise TypeError("ord() expected a character, but string of length %d found" % _len(c.cps))
        return c.cps[0]
    return _ord(c)


def sym_chr(o):
    if _isinstance(o, SymInt):
        if _sb(z3.Or(o.z < 0, o.z > 0x10FFFF)):
            raise ValueError("chr() arg not in range(0x110000)")
        return SymText("str", [o])
    return _chr(o)


def sym_bytes(*a, **k):
    if _len(a) == 1 and _isinstance(a[0], (list, tuple)) and any(_isinstance(v, SymInt) for v in a[0]):
        for v in a[0]:
            if _isinstance(v, SymInt) and _sb(z3.Or(v.z < 0, v.z > 255)):
                raise ValueError("bytes must be in range(0, 256)")
        return SymText("bytes", list(a[0]))
    if _len(a) == 1 and _isinstance(a[0], SymText):
        if a[0].kind == "bytes":
            return a[0]
        raise TypeError("string argument without an encoding")
    if _len(a) >= 2 and _isinstance(a[0], SymText):
        return a[0].encode(*a[1:], **k)
    return _bytes(*a, **k)


def sym_str(*a, **k):
    if a and _isinstance(a[0], SymText):
        if a[0].kind == "str":
            return a[0]
        if _len(a) > 1:
            return a[0].decode(*a[1:], **k)
    return _str(*a, **k)


def sym_len(x):
    return _len(x)


def sym_join(sep, parts):
    parts = list(parts)
    if any(_isinstance(p, SymText) for p in parts):
        kind = "bytes" if _isinstance(sep, _bytes) else "str"
        return SymText(kind, list(sep) if kind == "bytes" else [_ord(c) for c in sep]).join(parts)
    return sep.join(parts)


# ------------------------------------------------------------------------------------------------------------
# character widths: uninterpreted function W with range axiom instantiated per use

W = z3.Function("W", z3.IntSort(), z3.IntSort())


def w_axioms(cz):
    return z3.And(
        W(cz) >= 0,
        W(cz) <= 2,
        z3.Implies(z3.And(cz >= 32, cz < 127), W(cz) == 1),
        z3.Implies(z3.Or(cz < 32, z3.And(cz >= 127, cz < 160)), W(cz) == 0),
        # individual characters the library itself treats specially (values checked against wcwidth at start-up):
        # the ellipsis mark, and the Unicode line / paragraph separators that str.splitlines() splits on
        z3.Implies(cz == 0x2026, W(cz) == 1),
        z3.Implies(z3.Or(cz == 0x2028, cz == 0x2029), W(cz) == 0),
    )


def sym_char_width(ch):
    """Stub for urwid.str_util.get_char_width: any function into {0,1,2} agreeing with wcwidth on ASCII/C0/C1."""
    o = sym_ord(ch)
    if _isinstance(o, SymInt):
        ctx = Ctx.cur
        ctx.add_axiom(w_axioms(o.z))
        rec = ctx.apps.setdefault("W", (W, []))
        rec[1].append((o.z,))
        return SymInt(W(o.z))
    import wcwidth

    real = builtins.max(wcwidth.wcwidth(_chr(o) if _isinstance(o, builtins.int) else ch), 0)
    if Ctx.cur is not None and _isinstance(o, builtins.int):
        # a concrete character has its real width; keep the abstract table consistent with it on this code point
        Ctx.cur.add_axiom(W(o) == real)
    return real


# ------------------------------------------------------------------------------------------------------------
# containers that accept symbolic keys


class SymDict(dict):
    """dict with concrete keys that accepts SymInt / SymText lookups by forking per candidate key."""

    def _find(self, k):
        if _isinstance(k, SymInt):
            for kk in dict.keys(self):
                if _isinstance(kk, builtins.int) and not _isinstance(kk, bool) and _sb(k.z == kk):
                    return kk, True
            return None, False
        if _isinstance(k, SymText):
            for kk in dict.keys(self):
                r = k == kk
                if r is not False and bool(r):
                    return kk, True
            return None, False
        try:
            return (k, True) if dict.__contains__(self, k) else (None, False)
        except TypeError:
            return None, False

    def __contains__(self, k):
        return self._find(k)[1]

    def __getitem__(self, k):
        kk, ok = self._find(k)
        if not ok:
            raise KeyError(k)
        return dict.__getitem__(self, kk)

    def get(self, k, default=None):
        kk, ok = self._find(k)
        return dict.__getitem__(self, kk) if ok else default


def symdict_deep(d):
    return SymDict({k: (symdict_deep(v) if _isinstance(v, dict) else v) for k, v in d.items()})


class SymTable(list):
    """list of ints that accepts a SymInt index (If-chain, no fork) — for colour / charset lookup tables."""

    def __getitem__(self, i):
        if _isinstance(i, SymInt):
            n = _len(self)
            if _sb(z3.Or(i.z < -n, i.z >= n)):
                raise IndexError("list index out of range")
            idx = z3.If(i.z < 0, i.z + n, i.z)
            vals = [list.__getitem__(self, k) for k in range(n)]
            if all(_isinstance(v, builtins.int) for v in vals):
                e = z3.IntVal(vals[-1])
                for k in range(n - 2, -1, -1):
                    e = z3.If(idx == k, vals[k], e)
                return SymInt(e)
            return list.__getitem__(self, i.__index__())
        return list.__getitem__(self, i)


class CodecsShim:
    """Replacement for the `codecs` module global in urwid.util (encode of symbolic text)."""

    def __init__(self, real):
        self._real = real

    def __getattr__(self, n):
        return getattr(self._real, n)

    def encode(self, s, enc="utf-8", errors="strict"):
        if _isinstance(s, SymText):
            return s.encode(enc, errors)
        return self._real.encode(s, enc, errors)

    def decode(self, s, enc="utf-8", errors="strict"):
        if _isinstance(s, SymText):
            return s.decode(enc, errors)
        return self._real.decode(s, enc, errors)
