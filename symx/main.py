"""Driver:  python -m symx.main Cxx [--tier quick|thorough] [--replay file] [--jobs N] [--only glob]"""
from __future__ import annotations

import argparse
import fnmatch
import hashlib
import importlib
import importlib.util
import json
import multiprocessing as mp
import os
import sys
import time
import traceback

ROOT = os.path.dirname(os.path.dirname(os.path.abspath(__file__)))
EXIT_OK, EXIT_VIOLATION, EXIT_HARNESS = 0, 1, 2


def _worker_init():
    os.environ["SYMX_MODE"] = "sym"
    sys.setrecursionlimit(5000)
    from symx import loader

    loader.install(lifted=True)


_conc = None


def _run_job(job):
    module, inst, tier, seed = job
    global _conc
    from symx import api

    try:
        if _conc is None:
            _conc = api.ConcreteServer()
        return api.run_instance(module, inst, tier, seed, concrete=_conc)
    except BaseException as e:  # noqa: BLE001
        try:
            if _conc is not None:
                _conc.close()
        finally:
            _conc = None
        return {"name": inst["name"], "func": inst["func"], "params": inst["params"], "error": "%s\n%s" % (repr(e), traceback.format_exc()[-3000:])}


def load_known(prop):
    p = os.path.join(ROOT, "known_findings.json")
    if not os.path.exists(p):
        return []
    data = json.load(open(p))
    return [f for f in data.get("findings", []) if f.get("property") == prop and f.get("status", "open") == "open"]


def match_known(known, inst_name, cand):
    sig = cand["sig"] if isinstance(cand["sig"], str) else "%s@%s" % (cand["sig"][0], cand["sig"][1])
    if cand["kind"] == "exc":
        # the site observed on the real code is authoritative
        c = cand.get("concrete") or {}
        if c.get("exc"):
            sig = "%s@%s" % (c["exc"], c.get("site"))
    for f in known:
        if not fnmatch.fnmatch(inst_name, f.get("instance", "*")):
            continue
        if not fnmatch.fnmatch(sig, f["signature"]):
            continue
        pred = f.get("input_pred")
        if pred:
            env = {k.replace("[", "_").replace("]", ""): v for k, v in cand["vals"].items()}
            env["params"] = cand.get("params", {})
            env["funcs"] = cand.get("funcs", {})
            env["rvals"] = [e[1] for n, f in cand.get("funcs", {}).items() if n.startswith("R_") for e in f["entries"]]
            env["msg"] = (cand.get("concrete") or {}).get("msg") or ""
            try:
                if not eval(pred, {"__builtins__": {"abs": abs, "min": min, "max": max, "len": len, "any": any, "all": all}}, env):  # noqa: S307
                    continue
            except Exception:  # noqa: BLE001
                continue
        return f
    return None


def main(argv=None):
    ap = argparse.ArgumentParser()
    ap.add_argument("prop")
    ap.add_argument("--tier", default=os.environ.get("VERIF_TIER", "quick"), choices=["quick", "thorough"])
    ap.add_argument("--replay")
    ap.add_argument("--jobs", type=int, default=int(os.environ.get("SYMX_JOBS", "0")) or min(16, os.cpu_count() or 4))
    ap.add_argument("--only", default=None, help="glob over instance names (development aid; evidence says so)")
    ap.add_argument("--verbose", "-v", action="store_true")
    ap.add_argument("--no-evidence", action="store_true")
    ap.add_argument("--dump", default=None, help="write the raw per-instance results to this JSON file (development aid)")
    args = ap.parse_args(argv)
    seed = int(os.environ.get("VERIF_SEED", "0") or 0)
    prop = args.prop
    module = "harness." + prop
    sys.path.insert(0, ROOT)

    if args.replay:
        return do_replay(prop, args.replay)

    t0 = time.time()
    os.environ["SYMX_MODE"] = "sym"
    hm_spec = importlib.util.find_spec(module)
    if hm_spec is None:
        print("no harness module for", prop)
        return EXIT_HARNESS
    _worker_init()
    hm = importlib.import_module(module)
    insts = [i.to_json() | {k: v for k, v in (("timeout", i.timeout), ("validate", i.validate), ("max_paths", i.max_paths)) if v is not None}
             for i in hm.instances(args.tier)]
    if args.only:
        insts = [i for i in insts if fnmatch.fnmatch(i["name"], args.only)]
    names = [i["name"] for i in insts]
    assert len(set(names)) == len(names), "duplicate instance names"
    jobs = [(module, i, args.tier, seed) for i in insts]
    # longest first helps the tail; instances may carry a 'cost' hint in params
    jobs.sort(key=lambda j: -j[1].get("timeout", 0))
    results = []
    ctxm = mp.get_context("fork")
    with ctxm.Pool(min(args.jobs, max(1, len(jobs))), maxtasksperchild=8) as pool:
        for r in pool.imap_unordered(_run_job, jobs, chunksize=1):
            results.append(r)
            if args.verbose:
                print("  %-50s paths=%-6s obl=%s/%s val=%s cand=%s inc=%s %.1fs %s" % (
                    r["name"], r.get("paths"), r.get("discharged"), r.get("obligations"), r.get("validated"),
                    len(r.get("candidates", [])), len(r.get("inconclusive", [])), r.get("wall_s", 0), "ERROR" if "error" in r else ""), flush=True)
                if "error" in r:
                    print(r["error"])
                for m in r.get("validation_mismatch", [])[:2]:
                    print("    MISMATCH", json.dumps(m)[:1500])
                for c in r.get("candidates", [])[:3]:
                    print("    CAND", c["kind"], c["sig"], "reproduced=", c["reproduced"], json.dumps(c["vals"])[:400], (c.get("concrete") or {}).get("msg"))
                    if c.get("tb") and not c["reproduced"]:
                        print(c["tb"][-600:])
                for m in r.get("inconclusive", [])[:3]:
                    print("    INCONCLUSIVE", str(m)[:600])
    results.sort(key=lambda r: r["name"])
    if args.dump:
        json.dump(results, open(args.dump, "w"), default=str)
    return report(prop, args, seed, hm, results, time.time() - t0)


def report(prop, args, seed, hm, results, wall):
    known = load_known(prop)
    violations, known_hits, harness_errors, inconclusive = [], {}, [], []
    os.makedirs(os.path.join(ROOT, "replays"), exist_ok=True)
    for old in os.listdir(os.path.join(ROOT, "replays")):
        if old.startswith(prop + "-"):
            os.unlink(os.path.join(ROOT, "replays", old))
    for r in results:
        if "error" in r:
            harness_errors.append("%s: %s" % (r["name"], r["error"][:500]))
            continue
        for m in r.get("validation_mismatch", []):
            harness_errors.append("%s: symbolic/concrete mismatch %s" % (r["name"], json.dumps(m)[:600]))
        for c in r.get("candidates", []):
            c["params"] = r["params"]
            if not c["reproduced"]:
                harness_errors.append("%s: counterexample %s did not reproduce on the real code: %s" % (r["name"], c["sig"], json.dumps(c["vals"])[:300]))
                continue
            f = match_known(known, r["name"], c)
            if f is not None:
                known_hits.setdefault(f["id"], (f, r["name"], c))
            else:
                violations.append((r["name"], c, r))
        if r.get("inconclusive"):
            inconclusive.append((r["name"], r["inconclusive"][:5]))
    # de-duplicate violations per (instance, signature): one replay file each
    seen = set()
    vio_lines = []
    for name, c, r in violations:
        sig = c["sig"] if isinstance(c["sig"], str) else "@".join(map(str, c["sig"]))
        key = (name, sig)
        if key in seen:
            continue
        seen.add(key)
        fn = os.path.join(ROOT, "replays", "%s-%s.json" % (prop, hashlib.sha1(repr(key).encode()).hexdigest()[:10]))
        json.dump({"property": prop, "module": "harness." + prop, "instance": name, "func": r["func"], "params": r["params"], "kind": c["kind"],
                   "signature": c["sig"], "vals": c["vals"], "funcs": c["funcs"], "observed": c["concrete"]}, open(fn, "w"), indent=1)
        vio_lines.append("VIOLATION property=%s replay=%s" % (prop, fn))
    for fid, (f, iname, c) in sorted(known_hits.items()):
        print("KNOWN-FINDING: property=%s %s [%s; instance %s]" % (prop, f["summary"], fid, iname))
    ok_results = [r for r in results if "error" not in r]
    n_inst = len(results)
    n_conclusive = sum(1 for r in ok_results if not r.get("inconclusive"))
    if not args.no_evidence:
        write_evidence(prop, args, seed, hm, results, wall, len(vio_lines), known_hits, inconclusive, harness_errors)
    for l in vio_lines:
        print(l)
    print("%s tier=%s instances=%d conclusive=%d paths=%d obligations=%d discharged=%d validated=%d violations=%d known=%d inconclusive=%d harness_errors=%d wall=%.1fs" % (
        prop, args.tier, n_inst, n_conclusive, sum(r.get("paths", 0) for r in ok_results), sum(r.get("obligations", 0) for r in ok_results),
        sum(r.get("discharged", 0) for r in ok_results), sum(r.get("validated", 0) for r in ok_results), len(vio_lines), len(known_hits),
        len(inconclusive), len(harness_errors), wall))
    for name, why in inconclusive[:10]:
        print("  inconclusive: %s: %s" % (name, str(why)[:300]))
    for e in harness_errors[:10]:
        print("  HARNESS-ERROR: %s" % e[:1200])
    if vio_lines:
        return EXIT_VIOLATION
    if harness_errors:
        return EXIT_HARNESS
    if n_inst == 0 or n_conclusive == 0:
        return EXIT_HARNESS
    return EXIT_OK


def write_evidence(prop, args, seed, hm, results, wall, nviol, known_hits, inconclusive, harness_errors):
    ok = [r for r in results if "error" not in r]
    funcs = sorted({f for r in ok for f in r.get("functions", [])})
    from symx import loader

    files = sorted({f.split(":")[0] for f in funcs})
    samples = []
    for r in ok:
        if r.get("sample") and len(samples) < 6:
            samples.append({"instance": r["name"], "params": r["params"], "paths": r["paths"], "witness": r["sample"]})
    if not samples:
        samples = [{"instance": r["name"], "params": r["params"]} for r in ok[:3]] or [{"note": "no instance completed"}]
    conc = {}
    for r in ok:
        for k, v in r.get("conc_sites", {}).items():
            conc[k] = max(conc.get(k, 0), v)
    meta = getattr(hm, "META", {})
    ev = {
        "property_id": prop,
        "tier": args.tier,
        "seed": seed,
        "level": meta.get("level", "model_checking"),
        "coverage": {
            "states": max(1, sum(r.get("paths", 0) for r in ok)),
            "transitions": max(1, sum(r.get("forks", 0) for r in ok)),
            "traces_validated_against_impl": sum(r.get("validated", 0) for r in ok),
            "samples": samples,
            "evaluations": len(results),
            "distinct_nontrivial": sum(1 for r in ok if r.get("paths", 0) >= 2 and r.get("discharged", 0) >= 1),
            "rule": "one evaluation = one harness instance (a real urwid entry point run on symbolic inputs over every feasible path); "
                    "non-trivial = at least two feasible paths and at least one solver-discharged obligation; instance names are distinct",
            "obligations": sum(r.get("obligations", 0) for r in ok),
            "discharged": sum(r.get("discharged", 0) for r in ok),
            "exhaustive": bool(ok) and all(r.get("complete") and not r.get("inconclusive") for r in ok) and len(ok) == len(results),
            "explanation": meta.get("explanation", ""),
            "technique": "dynamic symbolic execution of the real urwid functions (AST-lifted import of the working tree) over z3; "
                         "every path's obligations decided by check-sat of pc AND NOT post; counterexamples replayed on the un-lifted code",
            "functions_encoded": funcs,
            "source_files_sha1": {f: loader.SOURCE_HASHES.get(os.path.join("urwid", f)) for f in files},
            "bounds": meta.get("bounds", {}),
            "outside_claim": meta.get("outside", []),
            "stubs": meta.get("stubs", []),
            "concretisation_sites": conc,
            "queries": sum(r.get("queries", 0) for r in ok),
            "solver_time_s": round(sum(r.get("solver_s", 0) for r in ok), 2),
            "solver": "z3 %s (python API), per-check cap %s ms" % (__import__("z3").get_version_string(), os.environ.get("SYMX_CHECK_TIMEOUT_MS", "10000")),
            "instances": [{"name": r["name"], "paths": r.get("paths"), "kinds": r.get("kinds"), "obligations": r.get("obligations"),
                           "discharged": r.get("discharged"), "certificate": r.get("certificate"), "wall_s": r.get("wall_s"),
                           "inconclusive": r.get("inconclusive", [])[:3]} if "error" not in r else {"name": r["name"], "error": r["error"][:300]}
                          for r in results],
            "inconclusive": [n for n, _ in inconclusive],
            "known_findings_hit": sorted(known_hits),
            "harness_errors": harness_errors[:10],
            "only_filter": args.only,
        },
        "assumptions": meta.get("assumptions", []),
        "wall_s": round(wall, 2),
        "violations": nviol,
    }
    if ev["level"] == "fault_enumeration":
        # one evaluation = one explored path = one session with its own (fault index, exception kind, widget answers) vector
        ev["coverage"]["evaluations"] = sum(r.get("paths", 0) for r in ok)
        ev["coverage"]["distinct_nontrivial"] = sum((r.get("kinds") or {}).get("ok", 0) for r in ok)
        ev["coverage"]["rule"] = ("one evaluation = one session of the real code under one solver-chosen vector (fault index, exception kind, widget answers); the solver "
                                  "enumerates the vectors and the coverage certificate shows none was skipped, so vectors are distinct by construction; non-trivial = the "
                                  "session ran to its end and its obligations were checked (paths cut by an assumption are not counted)")
    os.makedirs(os.path.join(ROOT, "evidence"), exist_ok=True)
    with open(os.path.join(ROOT, "evidence", prop + ".json"), "w") as f:
        json.dump(ev, f, indent=1, default=str)


def do_replay(prop, path):
    from symx import api

    rp = json.load(open(path))
    out = api.replay_fresh({"module": rp["module"], "func": rp["func"], "params": rp["params"], "vals": rp["vals"], "funcs": rp.get("funcs", {}), "real_env": True})
    print(json.dumps(out, indent=1))
    if rp["kind"] == "check":
        bad = rp["signature"] in out["failed"]
    else:
        bad = out["kind"] == "exc" and out["exc"] == rp["signature"][0]
    if bad:
        print("VIOLATION property=%s replay=%s" % (prop, path))
        return EXIT_VIOLATION
    print("replay: the recorded failure does not occur on the current tree")
    return EXIT_OK


if __name__ == "__main__":
    sys.exit(main())
