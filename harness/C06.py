"""C06 - the canvas cache is invisible: cached rendering equals fresh rendering (twin trees, solver-chosen histories)."""
from symx.api import Instance

META = {
    "bounds": {
        "trees": "9 concrete widget trees covering a ListBox rendered small first and then taller (children that only the later canvas shows), Columns(dividechars=0) of AttrMap/Text/SelectableIcon/LineBox (flow),  Pile/Columns/Filler/AttrMap/Edit/Text, Frame/ListBox/SimpleFocusListWalker/Button, Overlay/LineBox/SolidFill, "
                 "Columns/CheckBox/Padding/GridFlow (flow), WidgetPlaceholder/ProgressBar/BoxAdapter/Divider, Scrollable/ScrollBar, PopUpLauncher/WidgetDisable",
        "history": "every (size, focus) of 2 sizes x 2 focus states rendered first (cache primed, canvases held), then k solver-chosen steps; a step is one public "
                   "mutation from the tree's catalogue (8-16 entries: set_text, edit keys, set_state, contents insert/delete/assign, focus changes, set_title, attr maps, "
                   "placeholder swaps, list-walker edits, scrolling), an optional release of all held canvases + gc, and renders; k = 2 (quick) / 3 (thorough); "
                   "after the last step all four (size, focus) renderings and rows() are compared, after earlier steps one rendering (solver-chosen; fixed per step in the quick k=2 and thorough k=3 instances)",
        "oracle": "a twin tree built by the same constructor receives the same operations but always renders with CanvasCache emptied (CanvasCache.clear() semantics); "
                  "content (per cell attribute, charset, byte), cursor and rows() must be equal; canvases handed out earlier must be unchanged and must refuse mutation",
    },
    "outside": ["trees other than the seven catalogued ones", "histories longer than 3 mutations", "sizes other than the two per tree", "Terminal, TreeWalker, BarGraph widgets",
                "threads"],
    "stubs": [],
    "assumptions": ["history selectors are enumerated through the solver; rendering itself runs on concrete values (no arithmetic is symbolic here, said plainly)"],
}


def instances(tier):
    q = tier == "quick"
    out = []
    for t in sorted(TREES):
        out.append(Instance("%s.k1" % t, "h_hist", {"tree": t, "k": 1, "free_render": True}, timeout=900))
        out.append(Instance("%s.k2" % t, "h_hist", {"tree": t, "k": 2, "free_render": not q}, timeout=1800))
        if not q:
            out.append(Instance("%s.k3" % t, "h_hist", {"tree": t, "k": 3, "free_render": False}, timeout=3000))
    return out


# ---- tree catalogue -----------------------------------------------------------------------------------------------
# build(u) -> (top, parts, sizes, mutators); a mutator is (name, fn(parts, top, size)).  Everything is built twice.

def _t_pile(u):
    t1 = u.Text("alpha")
    e = u.Edit("e:", "xy")
    t2 = u.Text("beta")
    am = u.AttrMap(u.Text("gamma"), "a", "af")
    cols = u.Columns([e, t2], dividechars=1)
    pile = u.Pile([t1, cols, am])
    pile.focus_position = 1
    top = u.Filler(pile, "top")
    p = dict(t1=t1, e=e, t2=t2, am=am, cols=cols, pile=pile)
    muts = [
        ("t1.set_text_long", lambda p, top, sz: p["t1"].set_text("a longer text that wraps over lines")),
        ("t2.set_text", lambda p, top, sz: p["t2"].set_text("b")),
        ("key_z", lambda p, top, sz: top.keypress(sz, "z")),
        ("key_left", lambda p, top, sz: top.keypress(sz, "left")),
        ("e.set_edit_text", lambda p, top, sz: p["e"].set_edit_text("")),
        ("e.set_caption", lambda p, top, sz: p["e"].set_caption("cap:")),
        ("am.set_attr_map", lambda p, top, sz: p["am"].set_attr_map({None: "b"})),
        ("am.set_focus_map", lambda p, top, sz: p["am"].set_focus_map({None: "bf"})),
        ("am.inner.set_text", lambda p, top, sz: p["am"].original_widget.set_text("g2")),
        ("pile.append", lambda p, top, sz: p["pile"].contents.append((u.Text("new"), p["pile"].options()))),
        ("pile.del0", lambda p, top, sz: p["pile"].contents.__delitem__(0)),
        ("pile.assign0", lambda p, top, sz: p["pile"].contents.__setitem__(0, (u.Text("repl"), p["pile"].options()))),
        ("pile.focus_last", lambda p, top, sz: setattr(p["pile"], "focus_position", len(p["pile"].contents) - 1)),
        ("cols.insert0", lambda p, top, sz: p["cols"].contents.insert(0, (u.Text("c0"), p["cols"].options()))),
        ("cols.focus1", lambda p, top, sz: setattr(p["cols"], "focus_position", 1)),
        ("t1.align_right", lambda p, top, sz: p["t1"].set_align_mode("right")),
        ("t1.wrap_clip", lambda p, top, sz: p["t1"].set_wrap_mode("clip")),
    ]
    return top, p, [(12, 5), (7, 3)], muts


def _t_frame(u):
    lw = u.SimpleFocusListWalker([u.Text("l0"), u.Edit("l1:", ""), u.Button("b2"), u.Text("l3\nl3b"), u.Text("l4")])
    lb = u.ListBox(lw)
    fr = u.Frame(lb, header=u.Text("H"), footer=u.Edit("f:", "q"))
    p = dict(lw=lw, lb=lb, fr=fr)
    muts = [
        ("lw0.set_text", lambda p, top, sz: p["lw"][0].set_text("L0 changed and long enough to wrap")),
        ("lw.append", lambda p, top, sz: p["lw"].append(u.Text("appended"))),
        ("lw.del0", lambda p, top, sz: p["lw"].__delitem__(0)),
        ("lw.insert0", lambda p, top, sz: p["lw"].insert(0, u.Text("ins"))),
        ("lw.assign1", lambda p, top, sz: p["lw"].__setitem__(1, u.Text("r"))),
        ("lw.set_focus3", lambda p, top, sz: p["lw"].set_focus(min(3, len(p["lw"]) - 1))),
        ("lb.set_focus2", lambda p, top, sz: p["lb"].set_focus(min(2, len(p["lw"]) - 1))),
        ("fr.header_new", lambda p, top, sz: setattr(p["fr"], "header", u.Text("H2\nH2b"))),
        ("fr.header.set_text", lambda p, top, sz: p["fr"].header.set_text("hdr")),
        ("fr.focus_footer", lambda p, top, sz: setattr(p["fr"], "focus_position", "footer")),
        ("fr.footer_none", lambda p, top, sz: setattr(p["fr"], "footer", None)),
        ("key_down", lambda p, top, sz: top.keypress(sz, "down")),
        ("key_page_down", lambda p, top, sz: top.keypress(sz, "page down")),
        ("key_x", lambda p, top, sz: top.keypress(sz, "x")),
        ("button.set_label", lambda p, top, sz: [w.set_label("B!") for w in p["lw"] if isinstance(w, u.Button)]),
        ("lb.valign_bottom", lambda p, top, sz: p["lb"].set_focus_valign("bottom")),
    ]
    return fr, p, [(12, 5), (7, 4)], muts


def _t_overlay(u):
    e = u.Edit(">", "ab")
    box = u.LineBox(u.Filler(e, "top"), title="T")
    bottom = u.SolidFill(".")
    ov = u.Overlay(box, bottom, "center", ("relative", 70), "middle", ("relative", 80))
    p = dict(e=e, box=box, ov=ov)
    muts = [
        ("box.set_title", lambda p, top, sz: p["box"].set_title("Title2")),
        ("box.set_title_empty", lambda p, top, sz: p["box"].set_title("")),
        ("key_c", lambda p, top, sz: top.keypress(sz, "c")),
        ("key_home", lambda p, top, sz: top.keypress(sz, "home")),
        ("e.set_edit_pos0", lambda p, top, sz: p["e"].set_edit_pos(0)),
        ("e.set_edit_text", lambda p, top, sz: p["e"].set_edit_text("hello world")),
        ("ov.contents_top", lambda p, top, sz: p["ov"].contents.__setitem__(1, (u.LineBox(u.SolidFill("o")), p["ov"].contents[1][1]))),
        ("ov.params", lambda p, top, sz: p["ov"].set_overlay_parameters("left", 5, "top", 3)),
        ("ov.contents_assign", lambda p, top, sz: p["ov"].contents.__setitem__(0, (u.SolidFill("+"), None))),
    ]
    return ov, p, [(12, 6), (9, 5)], muts


def _t_columns_flow(u):
    cb = u.CheckBox("c")
    pad = u.Padding(u.Text("padded text"), left=1)
    gf = u.GridFlow([u.Button("a"), u.Button("bb"), u.Text("t")], 5, 1, 0, "left")
    cols = u.Columns([("weight", 1, cb), pad, gf], dividechars=1)
    p = dict(cb=cb, pad=pad, gf=gf, cols=cols)
    muts = [
        ("cb.set_state", lambda p, top, sz: p["cb"].set_state(True)),
        ("key_space", lambda p, top, sz: top.keypress(sz, " ")),
        ("cb.set_label", lambda p, top, sz: p["cb"].set_label("longer label here")),
        ("pad.inner.set_text", lambda p, top, sz: p["pad"].original_widget.set_text("pt")),
        ("pad.align_right", lambda p, top, sz: setattr(p["pad"], "align", "right")),
        ("pad.width4", lambda p, top, sz: setattr(p["pad"], "width", 4)),
        ("pad.inner_new", lambda p, top, sz: setattr(p["pad"], "original_widget", u.Text("swapped in"))),
        ("gf.append", lambda p, top, sz: p["gf"].contents.append((u.Text("zz"), p["gf"].options()))),
        ("gf.del0", lambda p, top, sz: p["gf"].contents.__delitem__(0)),
        ("gf.cell_width7", lambda p, top, sz: setattr(p["gf"], "cell_width", 7)),
        ("gf.focus1", lambda p, top, sz: setattr(p["gf"], "focus_position", 1)),
        ("cols.focus2", lambda p, top, sz: setattr(p["cols"], "focus_position", 2)),
        ("cols.options_given", lambda p, top, sz: p["cols"].contents.__setitem__(0, (p["cb"], p["cols"].options("given", 4)))),
        ("key_right", lambda p, top, sz: top.keypress(sz, "right")),
    ]
    return cols, p, [(24,), (13,)], muts


def _t_placeholder(u):
    pb = u.ProgressBar("n", "c", 10, 100)
    div = u.Divider("-")
    lb = u.ListBox(u.SimpleListWalker([u.Text("x0"), u.Text("x1"), u.Edit("x2:")]))
    ba = u.BoxAdapter(lb, 2)
    txt = u.Text("tail")
    pile = u.Pile([pb, div, ba, txt])
    ph = u.WidgetPlaceholder(pile)
    top = u.Filler(ph, "top")
    p = dict(pb=pb, div=div, lb=lb, ba=ba, txt=txt, pile=pile, ph=ph)
    muts = [
        ("ph.swap", lambda p, top, sz: setattr(p["ph"], "original_widget", u.Text("swapped"))),
        ("ph.swap_back", lambda p, top, sz: setattr(p["ph"], "original_widget", p["pile"])),
        ("pb.set_completion", lambda p, top, sz: p["pb"].set_completion(55)),
        ("pb.current", lambda p, top, sz: setattr(p["pb"], "current", 100)),
        ("ba.inner_new", lambda p, top, sz: setattr(p["ba"], "original_widget", u.SolidFill("s"))),
        ("lb.body_append", lambda p, top, sz: p["lb"].body.append(u.Text("more"))),
        ("lb.body0.set_text", lambda p, top, sz: p["lb"].body[0].set_text("X0!")),
        ("lb.body_new", lambda p, top, sz: setattr(p["lb"], "body", u.SimpleListWalker([u.Text("fresh")]))),
        ("pile.focus2", lambda p, top, sz: setattr(p["pile"], "focus_position", 2)),
        ("key_down", lambda p, top, sz: top.keypress(sz, "down")),
        ("txt.set_text", lambda p, top, sz: p["txt"].set_text("tail two")),
        ("pile.weight", lambda p, top, sz: p["pile"].contents.__setitem__(3, (u.Text("weighted"), p["pile"].options("pack")))),
    ]
    return top, p, [(12, 7), (8, 5)], muts


def _t_scroll(u):
    texts = [u.Text("row %d" % i) for i in range(6)]
    e = u.Edit("in:", "")
    pile = u.Pile([*texts, e])
    sc = u.Scrollable(pile)
    sb = u.ScrollBar(sc)
    p = dict(texts=texts, e=e, pile=pile, sc=sc, sb=sb)
    muts = [
        ("sc.set_scrollpos2", lambda p, top, sz: p["sc"].set_scrollpos(2)),
        ("sc.set_scrollpos_end", lambda p, top, sz: p["sc"].set_scrollpos(-1)),
        ("key_down", lambda p, top, sz: top.keypress(sz, "down")),
        ("key_page_down", lambda p, top, sz: top.keypress(sz, "page down")),
        ("key_up", lambda p, top, sz: top.keypress(sz, "up")),
        ("text0.set_text", lambda p, top, sz: p["texts"][0].set_text("ROW ZERO that is long")),
        ("text5.set_text", lambda p, top, sz: p["texts"][5].set_text("r5")),
        ("pile.del1", lambda p, top, sz: p["pile"].contents.__delitem__(1)),
        ("pile.focus_last", lambda p, top, sz: setattr(p["pile"], "focus_position", len(p["pile"].contents) - 1)),
        ("key_y", lambda p, top, sz: top.keypress(sz, "y")),
    ]
    return sb, p, [(10, 4), (7, 3)], muts


def _t_popup(u):
    class Launcher(u.PopUpLauncher):
        def create_pop_up(self):
            return u.Filler(u.Text("POP"))

        def get_pop_up_parameters(self):
            return {"left": 1, "top": 1, "overlay_width": 5, "overlay_height": 2}

    btn = u.Button("open")
    la = Launcher(btn)
    dis = u.WidgetDisable(u.Edit("d:", "zz"))
    sel = u.SelectableIcon("icon", 1)
    pile = u.Pile([la, dis, u.AttrMap(sel, None, "f")])
    top = u.PopUpTarget(u.Filler(pile, "top"))
    p = dict(btn=btn, la=la, dis=dis, sel=sel, pile=pile)
    muts = [
        ("la.open", lambda p, top, sz: p["la"].open_pop_up()),
        ("la.close", lambda p, top, sz: p["la"].close_pop_up()),
        ("btn.set_label", lambda p, top, sz: p["btn"].set_label("OPEN NOW")),
        ("dis.inner.set_edit_text", lambda p, top, sz: p["dis"].original_widget.set_edit_text("changed")),
        ("sel.set_text", lambda p, top, sz: p["sel"].set_text("ICON")),
        ("pile.focus2", lambda p, top, sz: setattr(p["pile"], "focus_position", 2)),
        ("key_down", lambda p, top, sz: top.keypress(sz, "down")),
        ("pile.del1", lambda p, top, sz: p["pile"].contents.__delitem__(1)),
    ]
    return top, p, [(12, 5), (8, 4)], muts


def _t_columns_attr(u):
    note = u.Text("note")
    left = u.AttrMap(note, "hl")
    right = u.Text("l1\nl2\nl3")
    icon = u.SelectableIcon("pick", 0)
    lb = u.LineBox(u.Text("in box"))
    cols = u.Columns([left, right, ("pack", icon), lb], dividechars=0)
    p = dict(note=note, left=left, right=right, icon=icon, lb=lb, cols=cols)
    muts = [
        ("right.set_text_short", lambda p, top, sz: p["right"].set_text("l1")),
        ("right.set_text_long", lambda p, top, sz: p["right"].set_text("l1\nl2\nl3\nl4\nl5")),
        ("note.set_text", lambda p, top, sz: p["note"].set_text("a note that is long enough to wrap twice")),
        ("note.set_text_short", lambda p, top, sz: p["note"].set_text("n")),
        ("left.set_attr_map", lambda p, top, sz: p["left"].set_attr_map({None: "hl2"})),
        ("icon.set_text", lambda p, top, sz: p["icon"].set_text("pick me\nplease")),
        ("lb.inner.set_text", lambda p, top, sz: p["lb"].original_widget.set_text("x")),
        ("lb.set_title", lambda p, top, sz: p["lb"].set_title("t")),
        ("cols.focus2", lambda p, top, sz: setattr(p["cols"], "focus_position", 2)),
        ("cols.given3", lambda p, top, sz: p["cols"].contents.__setitem__(0, (p["left"], p["cols"].options("given", 3)))),
        ("cols.del1", lambda p, top, sz: p["cols"].contents.__delitem__(1)),
    ]
    return cols, p, [(24,), (16,)], muts


def _t_listgrow(u):
    # rendered small first, then taller: the taller canvas shows items the first cached canvas did not
    items = [u.Text("item %d" % i) for i in range(6)]
    lw = u.SimpleFocusListWalker(items)
    lb = u.ListBox(lw)
    box = u.LineBox(lb)
    p = dict(items=items, lw=lw, lb=lb, box=box)
    muts = [("item%d.set_text" % i, (lambda i: lambda p, top, sz: p["items"][i].set_text("ITEM %d changed" % i))(i)) for i in range(6)]
    muts += [
        ("lw.del4", lambda p, top, sz: p["lw"].__delitem__(4)),
        ("lw.insert3", lambda p, top, sz: p["lw"].insert(3, u.Text("new"))),
        ("lb.focus3", lambda p, top, sz: p["lb"].set_focus(3)),
        ("box.set_title", lambda p, top, sz: p["box"].set_title("t")),
    ]
    return box, p, [(10, 4), (10, 7)], muts


TREES = {"listgrow": _t_listgrow, "colsattr": _t_columns_attr, "pile": _t_pile, "frame": _t_frame, "overlay": _t_overlay, "colsflow": _t_columns_flow, "placeholder": _t_placeholder, "scroll": _t_scroll, "popup": _t_popup}


def _snap(canv):
    rows = []
    for row in canv.content():
        cells = []
        for attr, cs, text in row:
            for b in bytes(text):
                cells.append((attr, cs, b))
        rows.append(tuple(cells))
    return (tuple(rows), canv.cursor, canv.rows(), canv.cols())


def h_hist(I, tree, k, free_render=True):
    import gc
    import weakref

    import urwid as u
    from urwid.canvas import CanvasCache, CanvasError

    CanvasCache.clear()
    topA, pA, sizes, muts = TREES[tree](u)
    topB, pB, _sizes, mutsB = TREES[tree](u)
    combos = [(s, f) for s in sizes for f in (True, False)]
    held = {}        # canvases the "application" keeps alive (like Screen keeps the last one)
    handed = []      # (canvas, snapshot at hand-out time)
    watched = {}     # id -> (weak reference to a cached canvas, snapshot when first seen in the cache)
    flow = len(sizes[0]) == 1
    trace = []

    def fresh(fn):
        """Run fn with CanvasCache emptied; the accumulated cache is put back afterwards."""
        saved = (CanvasCache._widgets, CanvasCache._refs, CanvasCache._deps)
        CanvasCache._widgets, CanvasCache._refs, CanvasCache._deps = {}, {}, {}
        try:
            # the emptied cache's dictionaries (and the weak references in them) are dropped afterwards, so no
            # clean-up callback of a canvas rendered here ever reaches the accumulated cache
            return fn()
        finally:
            CanvasCache._widgets, CanvasCache._refs, CanvasCache._deps = saved

    def watch_cache():
        # every canvas the cache can hand out (children included) is remembered with its content; weakly, so that
        # releasing the application's canvases still lets them go
        for ref in list(CanvasCache._refs):
            c = ref()
            if c is not None and id(c) not in watched:
                try:
                    watched[id(c)] = (weakref.ref(c), _snap(c))
                except Exception:  # noqa: BLE001
                    pass

    def compare(size, focus, tag):
        ca = topA.render(size, focus)
        sa = _snap(ca)
        held[(size, focus)] = ca
        handed.append((ca, sa))
        watch_cache()

        def rb():
            cb_ = topB.render(size, focus)
            s = _snap(cb_)
            return s

        sb_ = fresh(rb)
        ok = sa == sb_
        if not ok:
            trace.append(("DIFF", tag, size, focus))
        I.check("cached_render_equals_fresh", ok, info=trace[-6:])
        if flow:
            ra = topA.rows(size, focus)
            rbv = fresh(lambda: topB.rows(size, focus))
            I.check("cached_rows_equals_fresh", ra == rbv, info=trace[-6:])
            I.check("rows_equals_canvas_rows", ra == sa[2], info=trace[-6:])

    def apply(mi, size):
        name = muts[mi][0]
        ea = eb = None
        try:
            muts[mi][1](pA, topA, size)
        except Exception as e:  # noqa: BLE001
            ea = type(e).__name__
        try:
            fresh(lambda: (mutsB[mi][1](pB, topB, size), None)[1])
        except Exception as e:  # noqa: BLE001
            eb = type(e).__name__
        trace.append((name, ea, eb))
        return ea, eb

    # prime: every size and focus state is in the cache and kept alive
    for s, f in combos:
        compare(s, f, "prime")
    for step in range(k):
        mi = I.int("op%d" % step, 0, len(muts) - 1).__index__()
        ks = sizes[0] if step % 2 == 0 else sizes[1]   # size used for keypress-type operations
        ea, eb = apply(mi, ks)
        I.check("mutation_behaves_the_same_with_and_without_cache", ea == eb, info=trace[-6:])
        if ea is not None or eb is not None:
            break
        if bool(I.bool("release%d" % step)):
            held.clear()
            gc.collect(0)
            trace.append(("release",))
        if step < k - 1:
            ci = I.int("render%d" % step, 0, len(combos) - 1).__index__() if free_render else (2 * step + 1) % len(combos)
            compare(combos[ci][0], combos[ci][1], "step%d" % step)
    for s, f in combos:
        compare(s, f, "final")
    I.note("history", trace)
    # canvases handed out are never modified afterwards, and refuse modification
    unchanged = all(_snap(c) == s0 for c, s0 in handed)
    I.check("handed_out_canvases_unchanged", unchanged)
    changed = []
    for r, s0 in watched.values():
        c = r()
        if c is not None and _snap(c) != s0:
            changed.append((type(c).__name__, repr(c.widget_info[0])[:60] if c.widget_info else None, (s0[3], s0[2]), (c.cols(), c.rows())))
    I.check("cached_canvases_unchanged", not changed, info=changed[:3])
    watched.clear()
    refused = True
    for c, _s0 in handed[-2:]:
        try:
            if hasattr(c, "pad_trim_left_right"):
                c.pad_trim_left_right(1, 0)
                refused = False
        except CanvasError:
            pass
    I.check("finalized_canvases_refuse_mutation", refused)
    held.clear()
    handed.clear()
    CanvasCache.clear()
