"""C04 - the bytes sent to the terminal paint exactly the rendered canvas."""
from symx.api import And, Iff, Implies, Instance, Ite, Not, Or

META = {
    "bounds": {
        "screens": "2x1, 3x1, 2x2, 3x2 (quick) plus 1x1, 1x2 (thorough; larger screens did not finish within the budget); every cell an arbitrary byte 0..126 (controls are shown as '?'), "
                   "attribute runs over {None, 'a' (palette entry), 'undef' (not in the palette), an AttrSpec with standout} with solver-chosen boundaries, "
                   "charset runs None/'0' (non-utf-8 output), cursor anywhere or absent",
        "history": "two frames (three in thorough for the byte-content instances on the 1- and 2-cell screens), optionally clear() between them, optionally a resize to another of the sizes; attribute and charset runs in both frames only on the 2-cell screens (larger ones did not finish within the budget)",
        "configuration": "back_color_erase on/off, output encoding ascii / utf-8 (ASCII content)",
    },
    "outside": ["HTML screenshot back-end", "double-width characters in the frames", "partial-screen mode (_rows_used)", "fbterm, Windows branch", "colour depth (C17 covers the SGR content)"],
    "stubs": ["Screen start-up bypassed (StubScreen collecting write() calls)", "CanvasCache untouched (TextCanvas built directly)"],
    "assumptions": ["the terminal model models/term.py: CUP, CR, BS, EL-to-right, SGR, SO/SI, insert mode, hide/show cursor, printable bytes with deferred autowrap"],
}

SIZES_Q = [(2, 1), (3, 1), (2, 2), (3, 2)]


def instances(tier):
    q = tier == "quick"
    # (the thorough tier adds the 1x1 and 1x2 screens and a third frame for the byte-content instances; wider sets - attribute and
    #  charset runs on 4-6 cell screens, both frames carrying runs - did not finish within a 22-minute budget)
    sizes = SIZES_Q if q else SIZES_Q + [(1, 1), (1, 2)]
    out = []
    for (c, r) in sizes:
        for mode in ("bytes", "attrs", "cs", "cursor"):
            if mode in ("attrs", "cs") and c * r > 3:
                continue  # (larger attribute / charset instances take more than ten minutes each)
            if mode == "cursor" and c * r > 4:
                continue

            for bce in (True, False):
                for enc in ("ascii", "utf-8"):
                    if enc == "utf-8" and (mode == "cs" or not bce):
                        continue
                    for hist in ("2", "2clear") + (() if q else ("3",)):
                        if hist == "2clear" and mode != "bytes":
                            continue
                        if hist == "3" and (mode != "bytes" or c * r > 2):
                            continue
                        out.append(Instance("draw.%dx%d.%s.%s.%s.%s" % (c, r, mode, "bce" if bce else "nobce", enc, hist), "h_draw",
                                            {"cols": c, "rows": r, "bce": bce, "enc": enc, "hist": hist, "mode": mode, "both": (mode == "cs" and c * r <= 2)}, timeout=600))
    for (c1, r1), (c2, r2) in (((3, 2), (2, 2)), ((2, 1), (3, 2)), ((2, 2), (2, 1))):
        out.append(Instance("resize.%dx%d.to.%dx%d" % (c1, r1, c2, r2), "h_draw", {"cols": c1, "rows": r1, "bce": True, "enc": "ascii", "hist": "resize", "mode": "bytes", "cols2": c2, "rows2": r2}, timeout=600))
    return out


def _frame(I, tag, cols, rows, mode, lo=0):
    """a TextCanvas: mode 'bytes' = every cell an arbitrary byte; 'attrs' / 'cs' = cells from {space, 'x', '~'} with solver-chosen attribute / charset runs;
    'cursor' = like 'attrs' without runs but with a solver-chosen cursor"""
    from urwid import canvas as cv
    from symx import uw

    text, attr, cs, cells = [], [], [], []
    names = [None, "a", "undef", "spec"] if cols * rows < 3 else [None, "a", "spec"]
    for y in range(rows):
        if mode == "bytes":
            bs = [I.int("%s_%d_%d" % (tag, y, x), lo, 126) for x in range(cols)]
        else:
            bs = []
            for x in range(cols):
                v = I.int("%s_%d_%d" % (tag, y, x), 32, 126)
                I.assume(Or(v == 32, v == 120, v == 126))
                bs.append(v)
        text.append(uw.mk_text(I, "bytes", bs))
        if mode == "attrs":
            cut = int(I.int("%s_acut%d" % (tag, y), 0, cols))
            a1 = I.choice("%s_a1_%d" % (tag, y), names)
            a2 = I.choice("%s_a2_%d" % (tag, y), names)
            arow = [(a1, cut), (a2, cols - cut)]
        else:
            arow = [(None, cols)]
        if mode == "cs":
            ccut = int(I.int("%s_ccut%d" % (tag, y), 0, cols))
            first = I.choice("%s_cs1_%d" % (tag, y), [None, "0"])
            crow = [(first, ccut), ("0" if first is None else None, cols - ccut)]
        else:
            crow = [(None, cols)]
        attr.append([r for r in arow if r[1]])
        cs.append([r for r in crow if r[1]])
        pa = []
        for a_, n in arow:
            pa += [a_] * n
        pc = []
        for c_, n in crow:
            pc += [c_] * n
        cells.append([(bs[x], pa[x], pc[x]) for x in range(cols)])
    c = cv.TextCanvas(text, attr, cs, maxcol=cols, check_width=False)
    cur = None
    if mode == "cursor" and bool(I.bool(tag + "_has_cursor")):
        cur = (int(I.int(tag + "_cx", 0, cols - 1)), int(I.int(tag + "_cy", 0, rows - 1)))
        c.cursor = cur
    return c, cells, cur


def h_draw(I, cols, rows, bce, enc, hist, mode, cols2=None, rows2=None, both=False):
    from urwid import util
    from urwid.display import common
    from models.term import Term
    from symx import uw

    util.set_encoding(enc)
    uw.stub_width(I)
    scr = uw.make_screen(I)
    scr.back_color_erase = bce
    scr.register_palette_entry("a", "dark red", "light gray")
    spec = common.AttrSpec("default,standout", "default", 16)
    term = Term(cols, rows)
    nframes = 3 if hist == "3" else 2
    size = (cols, rows)
    for k in range(nframes):
        if k == 1 and hist == "2clear":
            scr.clear()
        if k == 1 and hist == "resize":
            size = (cols2, rows2)
            term.resize(cols2, rows2)
            scr.clear()  # MainLoop clears the screen buffer on a resize (screen.clear() in _update / draw after 'window resize')
        # in utf-8 mode control characters have no width, so a row holding them is not a valid canvas row: printable only
        # on the larger screens only the last frame carries attribute / charset runs (the earlier ones are plain text)
        fmode = mode if (mode in ("bytes", "cursor") or (both and size[0] * size[1] < 3) or k == nframes - 1) else "plain"
        canv, cells, cur = _frame(I, "f%d" % k, size[0], size[1], fmode, lo=32 if enc == "utf-8" else 0)
        # 'spec' stands for an AttrSpec object in the attribute runs
        if fmode == "attrs":
            canv._attr = [[(spec if a == "spec" else a, n) for a, n in row] for row in canv._attr]
        del scr.out[:]
        scr.draw_screen(size, canv)
        for tok in scr.out:
            if I.is_sym(tok) or (hasattr(tok, "cps")):
                term.feed(None, sym_chars=uw.cps_of(tok))
            else:
                term.feed(tok)
        tag = "_frame%d" % k
        I.check("never_scrolls" + tag, not term.scrolled)
        I.check("cursor_addressing_inside_screen" + tag, not term.out_of_screen)
        default_esc = scr._attrspec_to_escape(common.AttrSpec("default", "default"))
        for y in range(size[1]):
            for x in range(size[0]):
                ch, a, c_ = cells[y][x]
                mch, msgr, mcs = term.cells[y][x]
                shown = Ite(ch < 32, 63, ch) if c_ != "U" else ch
                I.check("cell_%d_%d_text%s" % (x, y, tag), mch == shown)
                if a == "spec":
                    want = scr._attrspec_to_escape(spec)
                elif a == "a":
                    want = scr._pal_escape["a"]
                else:
                    want = default_esc
                got = "\x1b[%sm" % msgr if msgr is not None else None
                # a blank cell erased with the default rendition shows the same as one painted with it
                I.check("cell_%d_%d_attribute%s" % (x, y, tag), got == want)
                if enc != "utf-8":
                    # the alternate character set only changes how 0x5f..0x7e look; blanks are blanks in either set
                    I.check("cell_%d_%d_charset%s" % (x, y, tag), Implies(And(shown >= 0x5F, shown <= 0x7E), (mcs == "0") == (c_ == "0")))
        if cur is None:
            I.check("cursor_hidden" + tag, not term.cursor_visible)
        else:
            I.check("cursor_shown_at_canvas_cursor" + tag, term.cursor_visible and (term.x, term.y) == cur)
        I.check("insert_mode_left_off" + tag, not term.insert)
