"""C10 - the Edit widget behaves as a text editor model for any key sequence."""
from symx.api import And, Iff, Implies, Instance, Ite, Not, Or, ssum

META = {
    "bounds": {
        "state": "inductive step: edit text of length L <= 2 over all Unicode scalar values (newline, space, wide, zero-width arise as solver choices), "
                 "cursor offset anywhere in [0, L] (enumerated), caption from {'', 'ab'}; str and (ASCII/UTF-8 2-byte) bytes text",
        "keys": "one key per step: a printable character (symbolic code point), left, right, home, end, up, down, backspace, delete, enter, tab, an unused key, a click at a symbolic cell",
        "width": "symbolic and unbounded for the text-model obligations; concretised 1..3 where a canvas / layout rows are materialised",
    },
    "outside": ["texts longer than 2 (L = 3 did not finish within the thorough budget)", "highlight", "custom layouts", "masks", "right/center alignment of the edit line for the cursor-cell obligation"],
    "stubs": ["str_util.get_char_width -> uninterpreted W", "CanvasCache disabled"],
    "assumptions": ["representation invariant of Edit (DESIGN section 5): 0 <= edit_pos <= len(text), pref_col_maxcol == (None, None)"],
}

KEYS = ["char", "left", "right", "home", "end", "up", "down", "backspace", "delete", "enter", "tab", "f5", "click"]


def instances(tier):
    q = tier == "quick"
    out = []
    for L in (0, 1, 2):
        for key in KEYS:
            for cfg in (("space", False, False, ""), ("any", True, True, "ab"), ("clip", True, False, "")):
                wrap, multiline, allow_tab, caption = cfg
                layout_key = key in ("home", "end", "up", "down", "click")
                if L == 2 and layout_key and not (cfg[0] == "space" and key in ("up", "end")):
                    continue  # (the L = 2 layout-dependent steps take minutes each: two of them run; the others did not fit a 22-minute thorough budget)
                if q and L == 1 and key == "click" and cfg[0] != "any":
                    continue
                out.append(Instance("edit.%s.%s.L%d.%s" % (wrap, "cap" if caption else "nocap", L, key), "h_edit",
                                    {"L": L, "key": key, "wrap": wrap, "multiline": multiline, "allow_tab": allow_tab, "caption": caption, "maxw": 3}, timeout=600 if q else 1500))
                # the same step from a state that remembers a preferred column (after an earlier vertical move)
                if key in ("char", "backspace", "delete", "left", "right", "up", "down", "enter") and ((L == 1 and cfg[0] != "clip") or (not q and L <= 1)):
                    out.append(Instance("edit.%s.%s.L%d.%s.pref" % (wrap, "cap" if caption else "nocap", L, key), "h_edit",
                                        {"L": L, "key": key, "wrap": wrap, "multiline": multiline, "allow_tab": allow_tab, "caption": caption, "maxw": 3, "pref": True}, timeout=600 if q else 1500))
    for L in (0, 1, 2):
        for key in ("char", "backspace", "delete", "left"):
            out.append(Instance("bytes.L%d.%s" % (L, key), "h_edit_bytes", {"L": L, "key": key}, timeout=600))
            out.append(Instance("intedit.L%d.%s" % (L, key), "h_intedit", {"L": L, "key": key}, timeout=600))
    return out


def _lift_command_map(I):
    if I.symbolic:
        import sys

        import urwid  # noqa: F401
        from symx import uw
        from symx.text import SymDict

        cmap = sys.modules["urwid.command_map"].command_map
        uw._patch(cmap, "_command", SymDict(cmap._command))


def _mk(I, L, wrap, multiline, allow_tab, caption, kind="str"):
    import urwid
    from urwid import util
    from symx import uw

    uw.stub_width(I)
    uw.stub_cache(I)
    uw.stub_codecs(I)
    util.set_encoding("utf-8")
    _lift_command_map(I)
    cap = caption if kind == "str" else caption.encode()
    e = urwid.Edit(cap, "" if kind == "str" else b"", multiline=multiline, allow_tab=allow_tab, wrap=wrap)
    t = I.text("t", kind, L, 0, 0x10FFFF if kind == "str" else 0x7F)
    pos = int(I.int("edit_pos", 0, L))
    e._edit_text = t
    e._edit_pos = pos
    e.pref_col_maxcol = (None, None)
    e._pre_pref = None
    log = []
    urwid.connect_signal(e, "change", lambda w, new: log.append(("change", new, w.edit_text)))
    urwid.connect_signal(e, "postchange", lambda w, old: log.append(("postchange", old, w.edit_text)))
    return e, t, pos, log


def _teq(a, b):
    r = a == b
    return r


def h_edit(I, L, key, wrap, multiline, allow_tab, caption, maxw, pref=False):
    import urwid
    from urwid import text_layout
    from symx import uw

    e, t, pos, log = _mk(I, L, wrap, multiline, allow_tab, caption)
    cps = uw.cps_of(t)
    horizontal = key in ("char", "left", "right", "backspace", "delete", "enter", "tab", "f5")
    maxcol = I.int("maxcol", 1) if horizontal else int(I.int("maxcol", 1, maxw))
    size = (maxcol,)
    # representation: a preferred column may be remembered from an earlier vertical move at this width
    stored = None
    if pref:
        stored = I.int("stored_pref_col", 0) if horizontal else int(I.int("stored_pref_col", 0, maxw))
        e.pref_col_maxcol = (stored, maxcol)
    if key == "char":
        c = I.int("ch", 32, 0x10FFFF)
        I.assume(Or(c < 0xD800, c > 0xDFFF))
        k = uw.mk_text(I, "str", [c])
        r = e.keypress(size, k)
        I.check("printable_handled", r is None)
        I.check("insert_at_cursor", _teq(e.edit_text, uw.mk_text(I, "str", cps[:pos] + [c] + cps[pos:])))
        I.check("cursor_after_inserted", e.edit_pos == pos + 1)
        I.check("preferred_column_forgotten", e.pref_col_maxcol == (None, None))
        I.check("change_then_postchange", [x[0] for x in log] == ["change", "postchange"])
        if len(log) == 2:
            I.check("change_carries_new_text_before", And(_teq(log[0][1], e.edit_text), _teq(log[0][2], t)))
            I.check("postchange_carries_old_text_after", And(_teq(log[1][1], t), _teq(log[1][2], e.edit_text)))
        return
    if key in ("left", "right"):
        r = e.keypress(size, key)
        edge = pos == 0 if key == "left" else pos == L
        I.check("edge_returns_key", (r is key) == edge)
        I.check("moves_one_character", e.edit_pos == (pos if edge else pos + (-1 if key == "left" else 1)))
        if not edge:
            I.check("preferred_column_forgotten", e.pref_col_maxcol == (None, None))
        I.check("text_unchanged", _teq(e.edit_text, t) and not log)
        return
    if key in ("backspace", "delete"):
        r = e.keypress(size, key)
        edge = pos == 0 if key == "backspace" else pos == L
        I.check("edge_returns_key", (r is key) == edge)
        if edge:
            I.check("edge_changes_nothing", And(_teq(e.edit_text, t), e.edit_pos == pos) and not log)
        else:
            exp = cps[:pos - 1] + cps[pos:] if key == "backspace" else cps[:pos] + cps[pos + 1:]
            I.check("deletes_one_character", _teq(e.edit_text, uw.mk_text(I, "str", exp)))
            I.check("preferred_column_forgotten", e.pref_col_maxcol == (None, None))
            I.check("cursor", e.edit_pos == (pos - 1 if key == "backspace" else pos))
            I.check("change_then_postchange", [x[0] for x in log] == ["change", "postchange"])
            if len(log) == 2:
                I.check("postchange_carries_old_text", _teq(log[1][1], t))
        return
    if key == "enter":
        r = e.keypress(size, key)
        if multiline:
            I.check("newline_inserted", _teq(e.edit_text, uw.mk_text(I, "str", cps[:pos] + [10] + cps[pos:])) and e.edit_pos == pos + 1 and r is None)
        else:
            I.check("enter_unhandled", r is key and _teq(e.edit_text, t) is not False and e.edit_pos == pos)
        return
    if key == "tab":
        r = e.keypress(size, key)
        if allow_tab:
            n = 8 - pos % 8
            I.check("tab_inserts_spaces_to_next_stop", _teq(e.edit_text, uw.mk_text(I, "str", cps[:pos] + [32] * n + cps[pos:])) and e.edit_pos == pos + n and r is None)
        else:
            I.check("tab_unhandled", r is key and e.edit_pos == pos)
        return
    if key == "f5":
        r = e.keypress(size, key)
        I.check("unused_key_returned_unchanged", r is key)
        I.check("nothing_changed", And(_teq(e.edit_text, t), e.edit_pos == pos) and not log)
        return
    # ---- keys that depend on the layout: width concretised -------------------------------------------------
    full = uw.mk_text(I, "str", [ord(ch) for ch in caption] + cps)
    lay = text_layout.default_layout.layout(full, maxcol, "left", wrap)
    x0, y0 = e.get_cursor_coords(size)
    canv = e.render(size, True)
    I.check("reported_cursor_is_rendered_cursor", canv.cursor is not None and And(canv.cursor[0] == x0, canv.cursor[1] == y0))
    I.check("cursor_inside_canvas", And(x0 >= 0, x0 < maxcol, y0 >= 0, y0 < canv.rows()))
    nrows = canv.rows()
    if key in ("home", "end"):
        r = e.keypress(size, key)
        x1, y1 = e.get_cursor_coords(size)
        I.check("handled", r is None)
        I.check("stays_on_display_row", y1 == y0)
        I.check("offset_valid", And(e.edit_pos >= 0, e.edit_pos <= L))
        I.check("home_not_right_end_not_left", x1 <= x0 if key == "home" else x1 >= x0)
        I.check("text_unchanged", _teq(e.edit_text, t))
        # no position on the same display row lies further in that direction
        for p in range(L + 1):
            xp, yp = e.position_coords(maxcol, p)
            I.check("extreme_of_row_%d" % p, Implies(yp == y0, xp >= x1 if key == "home" else xp <= x1))
        return
    if key in ("up", "down"):
        r = e.keypress(size, key)
        x1, y1 = e.get_cursor_coords(size)
        target = y0 - 1 if key == "up" else y0 + 1
        # rows occupied by the caption only cannot hold the cursor
        top_y = e.position_coords(maxcol, 0)[1]
        possible = And(target >= top_y, target < nrows) if True else True
        I.check("moves_one_display_row_or_returns_key", Or(And(r is None, y1 == target), And(r is key, y1 == y0, e.edit_pos == pos)))
        I.check("handled_iff_row_exists", Iff(r is None, possible))
        I.check("offset_valid", And(e.edit_pos >= 0, e.edit_pos <= L))
        I.check("text_unchanged", _teq(e.edit_text, t))
        if r is None:
            # closest position to the preferred column on that row: nothing on the row lies strictly between
            want = x0 if stored is None else stored
            for p in range(L + 1):
                xp, yp = e.position_coords(maxcol, p)
                I.check("keeps_preferred_column_%d" % p, Implies(yp == y1, Not(And(xp > x1, xp <= want))))
        return
    if key == "click":
        cx = int(I.int("click_x", 0, maxw))
        cy = int(I.int("click_y", 0, 4))
        I.assume(And(cx < maxcol, cy < nrows))
        r = e.mouse_event(size, "mouse press", 1, cx, cy, True)
        x1, y1 = e.get_cursor_coords(size)
        top_y = e.position_coords(maxcol, 0)[1]
        if cy >= top_y:
            I.check("click_handled", r is True)
            I.check("cursor_on_clicked_row", y1 == cy)
            for p in range(L + 1):
                xp, yp = e.position_coords(maxcol, p)
                I.check("closest_character_%d" % p, Implies(yp == cy, Not(And(xp > x1, xp <= cx))))
        I.check("offset_valid", And(e.edit_pos >= 0, e.edit_pos <= L))
        I.check("text_unchanged", _teq(e.edit_text, t))


def h_edit_bytes(I, L, key):
    """bytes edit text (UTF-8 mode): the cursor never lands inside a multi-byte character."""
    import urwid
    from symx import uw

    e, t, pos, log = _mk(I, 0, "space", False, False, "", kind="bytes")
    # text: L characters, each either ASCII or a 2-byte UTF-8 sequence (structure solver-chosen)
    cps, starts = [], [0]
    for i in range(L):
        two = bool(I.bool("two_bytes_%d" % i))
        if two:
            cps += [I.int("lead%d" % i, 0xC2, 0xDF), I.int("cont%d" % i, 0x80, 0xBF)]
        else:
            cps += [I.int("a%d" % i, 0x20, 0x7E)]
        starts.append(len(cps))
    t = uw.mk_text(I, "bytes", cps)
    e._edit_text = t
    k = int(I.int("pos_index", 0, L))
    pos = starts[k]
    e._edit_pos = pos
    size = (I.int("maxcol", 1),)
    if key == "char":
        c = I.int("ch", 0x20, 0x7E)
        r = e.keypress(size, uw.mk_text(I, "str", [c]))
        I.check("inserted_at_cursor", e.edit_text == uw.mk_text(I, "bytes", cps[:pos] + [c] + cps[pos:]) and e.edit_pos == pos + 1 and r is None)
        return
    r = e.keypress(size, key)
    np = e.edit_pos
    if key == "left":
        I.check("moves_to_previous_character_start", np == (starts[k - 1] if k else 0))
    elif key == "backspace":
        if k:
            I.check("deletes_previous_character_whole", e.edit_text == uw.mk_text(I, "bytes", cps[:starts[k - 1]] + cps[pos:]) and np == starts[k - 1])
    elif key == "delete":
        if k < L:
            I.check("deletes_next_character_whole", e.edit_text == uw.mk_text(I, "bytes", cps[:pos] + cps[starts[k + 1]:]) and np == pos)


def h_intedit(I, L, key):
    """IntEdit keeps to digits."""
    import urwid
    from symx import uw

    uw.stub_width(I)
    uw.stub_cache(I)
    _lift_command_map(I)
    e = urwid.IntEdit("")
    digs = [I.int("d%d" % i, 48, 57) for i in range(L)]
    e._edit_text = uw.mk_text(I, "str", digs)
    pos = int(I.int("edit_pos", 0, L))
    e._edit_pos = pos
    size = (I.int("maxcol", 1),)
    if key == "char":
        c = I.int("ch", 32, 0x10FFFF)
        I.assume(Or(c < 0xD800, c > 0xDFFF))
        r = e.keypress(size, uw.mk_text(I, "str", [c]))
        isdigit = And(c >= 48, c <= 57)
        I.check("non_digit_not_consumed", Implies(Not(isdigit), r is not None))
    else:
        r = e.keypress(size, key)
    out = uw.cps_of(e.edit_text)
    I.check("only_digits", And(*[And(x >= 48, x <= 57) for x in out]) if out else True)
    I.check("offset_valid", And(e.edit_pos >= 0, e.edit_pos <= len(out)))
