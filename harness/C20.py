"""C20 - scrollable views show the right slice and scrollbars reflect the position."""
from symx.api import And, Iff, Implies, Instance, Ite, Not, Or, smax, smin

META = {
    "bounds": {
        "scrollable": "abstract flow/fixed child of `total` rows (symbolic, unbounded) and `ccols` columns; stored scroll position any integer (negative = from the bottom); "
                      "maxcol, maxrow >= 1 unbounded; one of the six scroll actions pending or none",
        "scrollbar": "maxrow 1..6, maxcol 2..5, content rows 0..14, bar width 1..2 concretised (the bar canvas is materialised row by row); scroll position symbolic and unbounded",
    },
    "outside": ["ListBox under ScrollBar (relative scrolling protocol)", "automove_cursor_on_scroll", "views taller than 6 rows for the scrollbar arithmetic"],
    "stubs": ["abstract child widget returning a SolidCanvas of the contract size", "CanvasCache disabled"],
    "assumptions": [],
}

ACTIONS = [None, "line up", "line down", "page up", "page down", "to top", "to end"]


def instances(tier):
    out = []
    for kind in ("flow", "fixed"):
        for act in ACTIONS:
            out.append(Instance("scrollable.%s.%s" % (kind, (act or "none").replace(" ", "_")), "h_scrollable", {"kind": kind, "action": act}, timeout=300))
    for key in ("up", "down", "page up", "page down", "home", "end", "x"):
        out.append(Instance("keys.%s" % key.replace(" ", "_"), "h_keys", {"key": key}, timeout=300))
    for side in ("right", "left"):
        for sbw in (1, 2):
            out.append(Instance("bar.%s.w%d" % (side, sbw), "h_bar", {"side": side, "sbw": sbw, "maxrows": 4 if tier == "quick" else 7, "maxtotal": 7 if tier == "quick" else 16}, timeout=900 if tier == "quick" else 3000))
    return out


def _child(I, kind, selectable=False, handles=None):
    import urwid

    total = I.int("total", 0)
    ccols = I.int("child_cols", 1)
    log = []

    sel = selectable

    class Child(urwid.Widget):
        _sizing = frozenset([urwid.FLOW if kind == "flow" else urwid.FIXED])
        _selectable = sel

        def selectable(self):
            return sel

        def rows(self, size, focus=False):
            return total

        def pack(self, size=(), focus=False):
            return (ccols, total) if kind == "fixed" else (size[0], total)

        def render(self, size, focus=False):
            log.append(("render", size))
            self.canv = urwid.SolidCanvas("c", size[0] if kind == "flow" else ccols, total)
            return self.canv

        def keypress(self, size, key):
            log.append(("keypress", size, key))
            return None if handles else key

    return Child(), total, ccols, log


def h_scrollable(I, kind, action):
    import urwid
    from symx import uw

    uw.stub_cache(I)
    child, total, ccols, log = _child(I, kind)
    sc = urwid.Scrollable(child)
    q = I.int("stored_pos")
    sc._trim_top = q
    sc._scroll_action = action
    maxcol = I.int("maxcol", 1)
    maxrow = I.int("maxrow", 1)
    canv = sc.render((maxcol, maxrow), False)
    I.check("canvas_cols", canv.cols() == maxcol)
    I.check("canvas_rows", canv.rows() == maxrow)
    p = sc.get_scrollpos((maxcol, maxrow))
    hi = smax(0, total - maxrow)
    I.check("position_in_range", And(p >= 0, p <= hi))
    I.check("child_size", log and log[0][1] == ((maxcol,) if kind == "flow" else ()))
    I.check("pending_action_consumed", sc._scroll_action is None)
    # which rows of the child are shown: first shard, first cview of the composite canvas
    shards = canv.shards
    nrows0, cviews0 = shards[0]
    cv = cviews0[0]
    shown = smin(maxrow, total)
    if bool(total > 0):
        I.check("first_shard_is_child", cv[5] is child.canv)
        I.check("slice_starts_at_reported_position", cv[1] == p)
        I.check("slice_height", nrows0 == shown)
        I.check("blank_padding_only_when_short", Implies(total >= maxrow, len(shards) == 1))
    # the position follows the documented meaning of the stored value / action
    base = Ite(q < 0, total - maxrow + q + 1, q)

    def clamp(v):
        return smax(0, smin(hi, v))

    exp = {None: clamp(base), "line up": clamp(base - 1), "line down": clamp(base + 1), "page up": clamp(base - maxrow + 1),
           "page down": clamp(base + maxrow - 1), "to top": 0, "to end": hi}[action]
    I.check("position_follows_request", p == exp)


def h_keys(I, key):
    """A key the wrapped widget handles is not also used for scrolling."""
    import urwid
    from symx import uw

    uw.stub_cache(I)
    handles = bool(I.bool("child_handles"))
    child, total, ccols, log = _child(I, "flow", selectable=True, handles=handles)
    sc = urwid.Scrollable(child)
    q = I.int("stored_pos", 0)
    maxcol = I.int("maxcol", 1)
    maxrow = I.int("maxrow", 1)
    I.assume(q <= smax(0, total - maxrow))
    sc._trim_top = q
    sc.render((maxcol, maxrow), True)
    p0 = sc.get_scrollpos()
    r = sc.keypress((maxcol, maxrow), key)
    offered = any(e[0] == "keypress" for e in log)
    if offered and handles:
        I.check("handled_key_returns_none", r is None)
        I.check("handled_key_not_used_for_scrolling", sc._scroll_action is None)
        sc.render((maxcol, maxrow), True)
        I.check("position_unchanged", sc.get_scrollpos() == p0)
    elif key == "x":
        I.check("unused_key_returned", r == "x")
        I.check("no_scroll_action", sc._scroll_action is None)
    else:
        I.check("scroll_key_consumed", r is None)


def _bar_profile(I, canv, maxcol, maxrow, side, sbw, thumb_char):
    """(top, thumb, bottom) read from the materialised canvas; None if the bar is not drawn."""
    rows = []
    for row in canv.content():
        txt = b"".join(seg[2] for seg in row).decode("utf-8")
        rows.append(txt)
    bar = [(r[-sbw:] if side == "right" else r[:sbw]) for r in rows]
    kinds = []
    for b in bar:
        if b == thumb_char * sbw:
            kinds.append("T")
        elif b == " " * sbw:
            kinds.append("t")
        else:
            kinds.append("?")
    return kinds


def h_bar(I, side, sbw, maxrows, maxtotal):
    import urwid
    from urwid import util
    from symx import uw

    util.set_encoding("utf-8")
    uw.stub_cache(I)
    maxrow = int(I.int("maxrow", 1, maxrows))
    maxcol = int(I.int("maxcol", sbw + 1, sbw + 3))
    results = []
    total_full = int(I.int("total", 0, maxtotal))
    # the content may fold into more rows at the narrower width it gets beside the bar
    extra = int(I.int("extra_rows_when_narrower", 0, 2))
    for k in (1, 2):
        log = []

        class Child(urwid.Widget):
            _sizing = frozenset([urwid.FLOW])

            def rows(self, size, focus=False):
                return total_full + (extra if size[0] < maxcol else 0)

            def render(self, size, focus=False):
                log.append(size)
                return urwid.SolidCanvas("c", size[0], self.rows(size))

        sc = urwid.Scrollable(Child())
        pos = I.int("pos%d" % k, 0)
        sc.set_scrollpos(pos) if not I.symbolic else setattr(sc, "_trim_top", pos)
        sb = urwid.ScrollBar(sc, thumb_char="#", trough_char=" ", side=side, width=sbw)
        canv = sb.render((maxcol, maxrow), False)
        I.check("canvas_size_%d" % k, And(canv.cols() == maxcol, canv.rows() == maxrow))
        p = sc.get_scrollpos()
        need = total_full > maxrow
        kinds = _bar_profile(I, canv, maxcol, maxrow, side, sbw, "#")
        drawn = "T" in kinds
        I.check("bar_drawn_iff_content_taller_%d" % k, drawn == need)
        if need:
            I.check("child_gets_width_minus_bar_%d" % k, log[-1] == (maxcol - sbw,))
            s = "".join(kinds)
            top = len(s) - len(s.lstrip("t"))
            bottom = len(s) - len(s.rstrip("t"))
            thumb = s.count("T")
            I.check("bar_is_trough_thumb_trough_%d" % k, s == "t" * top + "T" * thumb + "t" * bottom and thumb >= 1 and top + thumb + bottom == maxrow)
            if maxrow >= 2:  # (in a one-row view the thumb necessarily fills the bar)
                I.check("thumb_leaves_top_iff_scrolled_%d" % k, Iff(top == 0, p == 0))
            results.append((p, top))
        else:
            I.check("child_gets_full_width_%d" % k, log[-1] == (maxcol,))
    if len(results) == 2:
        (p1, t1), (p2, t2) = results
        I.check("thumb_never_moves_up_when_position_increases", Implies(p1 <= p2, t1 <= t2))
