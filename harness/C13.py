"""C13 - every event loop honours the alarm, file-watch, idle and exception contract (select loop; see not-covered list)."""
from symx.api import And, Iff, Implies, Instance, Ite, Not, Or

META = {
    "bounds": {
        "script": "up to 3 alarms with symbolic non-negative real delays (every relative order of expiry is a path), up to 2 watched descriptors whose readiness in "
                  "each iteration is a solver choice, up to 2 idle callbacks; callback behaviours from a concrete catalogue (plain, remove another alarm/watch/idle, "
                  "add an alarm, raise ExitMainLoop, raise ValueError); at most 6 (quick) / 8 (thorough) loop iterations",
        "clock": "time.time() is a symbolic non-decreasing real; select(timeout) returns a solver-chosen ready subset after a solver-chosen wait <= timeout (exactly timeout when nothing is ready)",
    },
    "outside": ["asyncio, tornado, twisted, trio and zmq adapters under a symbolic clock (their reactors cannot run on symbolic time); they are covered on the real clock by the "
                "real.* instances: 3 alarms 30 ms apart in every order, one pipe, one idle callback, catalogued callback behaviours, tolerance 3 ms", "glib loop (gi not installed)",
                "more than 3 alarms / 2 descriptors / 8 iterations", "signals, executors"],
    "stubs": ["select_loop.time -> symbolic clock", "select_loop.selectors -> scripted selector"],
    "assumptions": [],
}

ALARM_BEH = ["plain", "remove_next", "remove_prev", "add_alarm", "exit", "error", "remove_watch", "remove_idle"]


def instances(tier):
    q = tier == "quick"
    out = []
    its = 6 if q else 8
    for n in (1, 2, 3):
        out.append(Instance("alarms.n%d" % n, "h_sched", {"alarms": ["plain"] * n, "watches": [], "idles": ["plain"], "iters": its}, timeout=600))
    for n, rm in ((3, 0), (3, 1), (4, 0), (4, 1)) if q else ((3, 0), (3, 1), (3, 2), (4, 0), (4, 1), (4, 2), (5, 0), (5, 2)):
        out.append(Instance("alarms.n%d.remove%d_before_run" % (n, rm), "h_sched", {"alarms": ["plain"] * n, "watches": [], "idles": ["plain"], "iters": n + 3, "pre_remove": rm}, timeout=900))
    for beh in ALARM_BEH[1:]:
        out.append(Instance("alarm2.%s" % beh, "h_sched", {"alarms": [beh, "plain"], "watches": ["plain"] if beh == "remove_watch" else [], "idles": ["plain"], "iters": its}, timeout=600))
        if not q:
            out.append(Instance("alarm3.%s" % beh, "h_sched", {"alarms": ["plain", beh, "plain"], "watches": ["plain"] if beh == "remove_watch" else [], "idles": ["plain"], "iters": its}, timeout=1800))
    for wb in (["plain"], ["plain", "plain"], ["remove_other", "plain"], ["plain", "remove_other"], ["remove_self"], ["exit"], ["error"], ["add_alarm"]):
        out.append(Instance("watch.%s" % "-".join(wb), "h_sched", {"alarms": ["plain"], "watches": wb, "idles": ["plain"], "iters": 5 if q else 6}, timeout=900))
    for ib in (["plain", "plain"], ["remove_self", "plain"], ["remove_other", "plain"], ["error"], ["exit"]):
        out.append(Instance("idle.%s" % "-".join(ib), "h_sched", {"alarms": ["plain"], "watches": [], "idles": ib, "iters": its}, timeout=600))
    # the other adapters, on the real clock: schedules are enumerated through the solver, timing is concrete
    from ._loops import LOOPS

    for lp in LOOPS:
        out.append(Instance("real.%s" % lp, "h_real", {"loop": lp, "full": not q}, timeout=1800))
    return out


REAL_BEH = ["plain", "remove_later", "add_alarm", "exit", "error", "remove_watch", "remove_idle", "rewatch"]
REAL_WBEH = ["plain", "remove_self", "exit", "error"]


def h_real(I, loop, full, _attempt=1):
    """Alarm / watch / idle / exception contract of a real event loop on the real clock (30 ms spacing between events)."""
    import contextlib
    import io
    import itertools
    import os
    import time

    import urwid

    from ._loops import make_loop

    D = (0.03, 0.06, 0.09)
    perm = I.choice("delay_order", list(itertools.permutations(range(3))))
    beh = I.choice("first_alarm_behaviour", REAL_BEH)
    if full:
        pre_remove = I.choice("removed_before_run", [None, 0, 1, 2])
        wbeh = I.choice("watch_behaviour", REAL_WBEH)
    else:
        pre_remove, wbeh = I.choice("variant", [(None, "plain"), (1, "remove_self"), (None, "error"), (2, "exit")])
    el, close = make_loop(urwid, loop)
    rfd, wfd = os.pipe()
    rfd2, wfd2 = os.pipe()
    rfd3, wfd3 = os.pipe()
    log = []
    due, handles, removal = {}, {}, []
    order = sorted(range(3), key=lambda i: D[perm[i]])   # alarm ids by due time
    alive = [i for i in order if i != pre_remove]
    first = alive[0]
    writer = alive[1] if len(alive) > 1 else alive[0]
    st = {"watch": None, "watch2": None, "watch3": None, "rewatch": None, "idle": None, "watch_removed_at": None, "idle_removed_at": None, "written_at": None, "extra": None}

    def mk_alarm(i):
        def cb():
            log.append(("alarm", i, time.time()))
            if i == writer:
                os.write(wfd, b"x")
                os.write(wfd2, b"x")
                os.write(wfd3, b"x")
                st["written_at"] = len(log)
            if i == first:
                if beh == "remove_later":
                    later = [j for j in alive if j != i]
                    if later:
                        j = later[-1]
                        removal.append((j, el.remove_alarm(handles[j]), el.remove_alarm(handles[j]), len(log)))
                elif beh == "add_alarm":
                    due[9] = time.time() + 0.015
                    handles[9] = el.alarm(0.015, mk_alarm(9))
                elif beh == "exit":
                    raise urwid.ExitMainLoop()
                elif beh == "error":
                    raise ValueError("boom")
                elif beh == "remove_watch":
                    st["watch_removed_at"] = (el.remove_watch_file(st["watch"]), el.remove_watch_file(st["watch"]), len(log))
                elif beh == "remove_idle":
                    st["idle_removed_at"] = (el.remove_enter_idle(st["idle"]), el.remove_enter_idle(st["idle"]), len(log))
                elif beh == "rewatch":
                    # remove the older of two watches, add a third one, then remove the second: handles must not be confused
                    r1 = el.remove_watch_file(st["watch"])
                    st["watch3"] = el.watch_file(rfd3, mk_watch_n(3, rfd3))
                    r2 = el.remove_watch_file(st["watch2"])
                    r2b = el.remove_watch_file(st["watch2"])
                    st["rewatch"] = (r1, r2, r2b, len(log))
        return cb

    def mk_watch_n(n, fd):
        def cb():
            try:
                os.read(fd, 1)
            except OSError:
                pass
            log.append(("watch%d" % n, time.time()))
        return cb

    def watch_cb():
        try:
            os.read(rfd, 1)
        except OSError:
            pass
        log.append(("watch", time.time()))
        if wbeh == "remove_self":
            st["watch_removed_at"] = (el.remove_watch_file(st["watch"]), el.remove_watch_file(st["watch"]), len(log))
        elif wbeh == "exit":
            raise urwid.ExitMainLoop()
        elif wbeh == "error":
            raise ValueError("boom")

    def idle_cb():
        log.append(("idle", time.time()))

    def terminator():
        log.append(("end", time.time()))
        raise urwid.ExitMainLoop()

    raised = []
    returned = False
    try:
        t0 = time.time()
        for i in range(3):
            due[i] = t0 + D[perm[i]]
            handles[i] = el.alarm(D[perm[i]], mk_alarm(i))
        el.alarm(0.15, terminator)
        if pre_remove is not None:
            removal.append((pre_remove, el.remove_alarm(handles[pre_remove]), el.remove_alarm(handles[pre_remove]), 0))
        st["watch"] = el.watch_file(rfd, watch_cb)
        st["watch2"] = el.watch_file(rfd2, mk_watch_n(2, rfd2))
        st["idle"] = el.enter_idle(idle_cb)
        try:
            with contextlib.redirect_stdout(io.StringIO()):
                el.run()
            returned = True
        except ValueError as e:
            raised.append(e)
    finally:
        for fd in (rfd, wfd, rfd2, wfd2, rfd3, wfd3):
            try:
                os.close(fd)
            except OSError:
                pass
        close()
    checks = []

    def chk(name, cond, info=None):
        checks.append((name, bool(cond), info))

    TOL = 0.003
    ran = [e for e in log if e[0] == "alarm"]
    ids = [e[1] for e in ran]
    chk("alarm_runs_at_most_once", len(ids) == len(set(ids)))
    for _k, i, t in ran:
        chk("alarm_not_before_due", t >= due[i] - TOL, info=(i, t - due[i]))
    chk("alarms_in_due_order", all(due[ids[a]] <= due[ids[a + 1]] + TOL for a in range(len(ids) - 1)), info=ids)
    stops_at_first = beh in ("exit", "error")
    watch_stops = wbeh in ("exit", "error")
    watch_ran = any(e[0] == "watch" for e in log)
    expected_error = (beh == "error") or (wbeh == "error" and watch_ran)
    for j, r1, r2, idx in removal:
        chk("removal_reports_success", r1 is True)
        chk("second_removal_reports_failure", r2 is False)
        chk("removed_alarm_never_runs", all(not (e[0] == "alarm" and e[1] == j) for e in log[idx:]))
    if not stops_at_first:
        removed = {j for j, *_ in removal}
        must_run = [i for i in alive if i not in removed]
        if not (watch_stops and watch_ran):
            chk("every_pending_alarm_ran", all(i in ids for i in must_run) and (beh != "add_alarm" or 9 in ids), info=ids)
    else:
        chk("loop_stops_at_the_raising_callback", ids == [first] and not any(e[0] == "end" for e in log), info=ids)
    if st.get("rewatch") is not None:
        pass
    elif st["watch_removed_at"] is not None:
        r1, r2, idx = st["watch_removed_at"]
        chk("watch_removal_reports_success_then_failure", r1 is True and r2 is False)
        chk("watch_never_runs_after_removal", all(e[0] != "watch" for e in log[idx:]))
    elif st["written_at"] is not None and not stops_at_first:
        chk("readable_watch_runs", any(e[0] == "watch" for e in log[st["written_at"]:]))
    if st.get("rewatch") is not None:
        r1, r2, r2b, idx = st["rewatch"]
        chk("rewatch_removals_report_success_then_failure", r1 is True and r2 is True and r2b is False)
        chk("removed_watches_never_run", all(e[0] not in ("watch", "watch2") for e in log[idx:]), info=[e[0] for e in log[idx:]])
        if st["written_at"] is not None:
            chk("watch_added_from_a_callback_runs", any(e[0] == "watch3" for e in log[st["written_at"]:]), info=[e[0] for e in log])
    elif st["written_at"] is not None and not stops_at_first and not (watch_stops and watch_ran):
        chk("second_watch_runs", any(e[0] == "watch2" for e in log[st["written_at"]:]))
    chk("watch_not_before_readable", all(not e[0].startswith("watch") for e in log[: st["written_at"] or len(log)]))
    if st["idle_removed_at"] is not None:
        r1, r2, idx = st["idle_removed_at"]
        chk("idle_removal_reports_success_then_failure", r1 is True and r2 is False)
        chk("removed_idle_not_called_again", all(e[0] != "idle" for e in log[idx:]))
    else:
        # between two callbacks that are >= 15 ms apart the loop went quiescent: the idle callbacks ran in between
        evs = [(n, e) for n, e in enumerate(log) if e[0] in ("alarm", "watch", "watch2", "watch3", "end")]
        ok = True
        for (n1, e1), (n2, e2) in zip(evs, evs[1:]):
            if e2[-1] - e1[-1] >= 0.015 and not any(x[0] == "idle" for x in log[n1 + 1: n2]):
                ok = False
        chk("idle_runs_before_the_loop_goes_quiescent", ok)
    if expected_error:
        chk("error_reraised_exactly_once", len(raised) == 1 and not returned)
    else:
        chk("exit_main_loop_is_silent", returned and not raised)

    if _attempt < 3 and any(not c for _n, c, _i in checks):
        # timing on a loaded machine (a descheduled process makes two alarms due at once, or stretches a callback):
        # a schedule is only reported when it fails three times in a row; a defect in the loop fails every time
        return h_real(I, loop, full, _attempt + 1)
    I.note("log", [(e[0], e[1] if e[0] == "alarm" else None) for e in log])
    I.note("attempt", _attempt)
    for name, cond, info in checks:
        I.check(name, cond, info=info)


def h_sched(I, alarms, watches, idles, iters, pre_remove=None):
    import urwid
    from urwid.event_loop import select_loop
    from urwid.event_loop.select_loop import SelectEventLoop
    from symx import uw

    ExitMainLoop = urwid.ExitMainLoop
    # ---- environment: clock and selector --------------------------------------------------------------------
    state = {"now": 0.0 if not I.symbolic else I.real("t0", 0, 0), "n": 0, "it": 0}

    def advance(lo, hi):
        state["n"] += 1
        d = I.real("dt%d" % state["n"], 0)
        if lo is not None:
            I.assume(d >= lo)
        if hi is not None:
            I.assume(d <= hi)
        state["now"] = state["now"] + d

    class TimeMod:
        @staticmethod
        def time():
            return state["now"]

    class Key:
        def __init__(self, fd, data):
            self.fd, self.data = fd, data

    log = []

    class Selector:
        def __init__(self):
            self.reg = {}

        def __enter__(self):
            return self

        def __exit__(self, *a):
            return False

        def register(self, fd, ev, data=None):
            self.reg[fd] = data

        def select(self, timeout=None):
            state["it"] += 1
            if state["it"] > iters:
                raise ExitMainLoop()  # bound of the exploration
            ready = []
            for fd, data in self.reg.items():
                if bool(I.bool("ready_%d_%d" % (state["it"], fd))):
                    ready.append((Key(fd, data), 1))
            blocking = timeout is None or bool(timeout > 0)
            log.append(("select", state["it"], blocking, [k.fd for k, _ in ready], set(self.reg)))
            if ready:
                advance(0, timeout)
            else:
                if timeout is None:
                    raise ExitMainLoop()  # nothing can ever happen: quiescent forever
                advance(timeout, timeout)
            return ready

    class SelectorsMod:
        EVENT_READ = 1
        DefaultSelector = Selector

    uw._patch(select_loop, "time", TimeMod)
    uw._patch(select_loop, "selectors", SelectorsMod)
    loop = SelectEventLoop()
    orig_loop = loop._loop
    nloops = [0]

    def counted_loop():
        nloops[0] += 1
        if nloops[0] > iters + 2:
            raise ExitMainLoop()  # bound of the exploration (an idle loop without watches never calls select)
        orig_loop()

    loop._loop = counted_loop
    handles = {}
    due = {}
    removed_at = {}
    watch_removed = {}
    idle_handles = {}
    idle_removed = {}
    removal_results = []

    def mk_alarm(i, beh):
        def cb():
            log.append(("alarm", i, state["now"]))
            if beh == "remove_next" and i + 1 in handles:
                r1 = loop.remove_alarm(handles[i + 1])
                r2 = loop.remove_alarm(handles[i + 1])
                removal_results.append((i + 1, r1, r2))
                removed_at.setdefault(i + 1, len(log))
            elif beh == "remove_prev" and i - 1 in handles:
                r1 = loop.remove_alarm(handles[i - 1])
                removal_results.append((i - 1, r1, None))
            elif beh == "add_alarm":
                nid = 99 + 100 * len([k for k in due if k >= 99])
                d = I.real("d_new%d" % nid, 0)
                due[nid] = state["now"] + d
                handles[nid] = loop.alarm(d, mk_alarm(nid, "plain"))
            elif beh == "exit":
                raise ExitMainLoop()
            elif beh == "error":
                raise ValueError("boom")
            elif beh == "remove_watch":
                r = loop.remove_watch_file(10)
                if r:
                    watch_removed.setdefault(10, (r, len(log)))
            elif beh == "remove_idle":
                idle_removed[0] = (loop.remove_enter_idle(idle_handles[0]), len(log))
        return cb

    def mk_watch(k, beh):
        fd = 10 + k

        def cb():
            log.append(("watch", fd, state["now"], state["it"]))
            if beh == "remove_other":
                other = 10 + (1 - k)
                r = loop.remove_watch_file(other)
                if r:
                    watch_removed.setdefault(other, (r, len(log)))
            elif beh == "remove_self":
                r = loop.remove_watch_file(fd)
                if r:
                    watch_removed.setdefault(fd, (r, len(log)))
            elif beh == "exit":
                raise ExitMainLoop()
            elif beh == "error":
                raise ValueError("boom")
            elif beh == "add_alarm":
                nid = 99 + 100 * len([k for k in due if k >= 99])
                d = I.real("d_new%d" % nid, 0)
                due[nid] = state["now"] + d
                handles[nid] = loop.alarm(d, mk_alarm(nid, "plain"))
        return cb

    def mk_idle(k, beh):
        def cb():
            log.append(("idle", k, state["now"]))
            if beh == "remove_self":
                idle_removed[k] = (loop.remove_enter_idle(idle_handles[k]), len(log))
            elif beh == "remove_other":
                idle_removed[1 - k] = (loop.remove_enter_idle(idle_handles[1 - k]), len(log))
            elif beh == "exit":
                raise ExitMainLoop()
            elif beh == "error":
                raise ValueError("boom")
        return cb

    for i, beh in enumerate(alarms):
        d = I.real("d%d" % i, 0)
        due[i] = state["now"] + d
        handles[i] = loop.alarm(d, mk_alarm(i, beh))
    if pre_remove is not None:
        r1 = loop.remove_alarm(handles[pre_remove])
        r2 = loop.remove_alarm(handles[pre_remove])
        removal_results.append((pre_remove, r1, r2))
        removed_at[pre_remove] = 0
        I.check("removal_reports_success", r1 is True)
    for k, beh in enumerate(watches):
        loop.watch_file(10 + k, mk_watch(k, beh))
    for k, beh in enumerate(idles):
        idle_handles[k] = loop.enter_idle(mk_idle(k, beh))
    raised = None
    try:
        loop.run()
    except ValueError as e:
        raised = e
    I.note("log", [e[:2] for e in log])
    # ---- the contract ------------------------------------------------------------------------------------------
    expect_error = "error" in alarms + watches + idles
    errs = [e for e in log if False]
    I.check("only_the_injected_exception_leaves_run", raised is None or expect_error)
    ran = [e for e in log if e[0] == "alarm"]
    ids = [e[1] for e in ran]
    I.check("alarm_runs_at_most_once", len(ids) == len(set(ids)))
    for (_k, i, t) in ran:
        I.check("alarm_%s_not_before_due" % i, t >= due[i])
    for a in range(len(ran)):
        for b in range(a + 1, len(ran)):
            ia, ib = ran[a][1], ran[b][1]
            # an alarm that ran later was not due strictly earlier (unless it did not exist yet when the earlier one ran)
            if ib < 99:
                I.check("alarm_order_%s_before_%s" % (ia, ib), Not(due[ib] < due[ia]))
    for (j, r1, r2) in removal_results:
        was_pending = j not in ids[: ids.index(j)] if j in ids else True
        ran_before_removal = j in [e[1] for e in log[: removed_at.get(j, 0)] if e[0] == "alarm"] if j in removed_at else None
        if r1:
            idx = removed_at.get(j)
            if idx is not None:
                I.check("removed_alarm_never_runs", all(not (e[0] == "alarm" and e[1] == j) for e in log[idx:]))
        if r2 is not None:
            I.check("second_removal_reports_failure", r2 is False)
    # watches: called in every iteration in which the descriptor was ready and registered, never after removal returned
    for fd, (res, idx) in watch_removed.items():
        I.check("watch_%d_never_runs_after_removal" % fd, all(not (e[0] == "watch" and e[1] == fd) for e in log[idx:]))
    sel = [(n, e) for n, e in enumerate(log) if e[0] == "select"]
    for pos, (n, e) in enumerate(sel):
        _k, it, blocking, ready, reg = e
        nxt = sel[pos + 1][0] if pos + 1 < len(sel) else len(log)
        between = log[n + 1: nxt]
        stopped = raised is not None or any(False for _ in ())
        for fd in ready:
            gone = fd in watch_removed and watch_removed[fd][1] <= nxt and watch_removed[fd][1] > n
            calls = [x for x in between if x[0] == "watch" and x[1] == fd]
            if not gone and pos + 1 < len(sel):
                I.check("ready_watch_%d_called_once_in_iteration_%d" % (fd, it), len(calls) == 1)
            I.check("ready_watch_%d_at_most_once_in_iteration_%d" % (fd, it), len(calls) <= 1)
    # idle: after any alarm/watch callback ran, the idle callbacks run before the loop next blocks
    pending = False
    for e in log:
        if e[0] in ("alarm", "watch"):
            pending = True
        elif e[0] == "idle":
            pending = False
        elif e[0] == "select" and e[2] and pending:
            if not idle_removed:  # (with every idle callback removed there is nothing to run)
                I.check("idle_runs_before_blocking_wait", False)
            pending = False
    for k, (res, idx) in idle_removed.items():
        I.check("removed_idle_%d_not_called_again" % k, all(not (e[0] == "idle" and e[1] == k) for e in log[idx:]))
    if expect_error and raised is not None:
        I.check("error_stops_the_loop", True)
