"""C17 - display attributes travel from markup to the terminal unchanged."""
from symx.api import And, Iff, Implies, Instance, Ite, Not, Or

META = {
    "bounds": {
        "markup": "markup trees of 6 concrete shapes (depth <= 3, <= 4 leaves), leaves of 0..2 symbolic characters, tags solver-chosen from {a, b, c, None}",
        "layout": "text of L <= 3 characters, each solver-chosen from {symbolic ASCII printable, space, newline, U+00E9 (2 bytes, 1 column), U+4E00 (3 bytes, 2 columns)}; "
                  "1-3 attribute runs with symbolic lengths; width 1..3 (4 thorough) concretised; wrap and align concrete; the rendered canvas is also "
                  "clipped on the left by every amount (and on the right by one column) and compared column by column with the unclipped one",
        "maps": "AttrMap / fill_attr_apply chains of depth <= 3 over a leaf canvas with attributes from {None, a, b, c}; map entries solver-chosen",
        "sgr": "AttrSpec from every basic colour name / a few high and true colours x each style flag x bright_is_bold, at depths 1, 16, 88, 256, 2^24",
    },
    "outside": ["attribute of the inserted ellipsis mark itself (not specified)", "palette aliases via register_palette (like_other_name)", "fbterm escape dialect"],
    "stubs": ["CanvasCache disabled", "Screen start-up bypassed (StubScreen)"],
    "assumptions": [],
}

SHAPES = {
    "flat": ["L0"],
    "tagged": [("t0", "L0")],
    "list2": ["L0", ("t0", "L1")],
    "nested": [("t0", ["L0", ("t1", "L1"), "L2"])],
    "mixed": [("t0", "L0"), "L1", ("t1", [("t2", "L2"), "L3"])],
    "same": [("t0", "L0"), ("t1", "L1"), "L2"],
}


def instances(tier):
    q = tier == "quick"
    out = []
    for shape in SHAPES:
        out.append(Instance("markup.%s" % shape, "h_markup", {"shape": shape, "maxlen": 1 if q else 2}, timeout=600))
    for wrap in ("any", "space", "clip", "ellipsis"):
        for align in ("left", "center", "right"):
            if q and align == "center" and wrap != "space":
                continue
            for L in ((2, 3) if q else (1, 2, 3)):
                out.append(Instance("layout.%s.%s.L%d" % (wrap, align, L), "h_layout", {"wrap": wrap, "align": align, "L": L, "maxw": 3 if q else 4}, timeout=900 if q else 3000))
    for depth in (1, 2, 3):
        out.append(Instance("maps.d%d" % depth, "h_maps", {"depth": depth, "widget": False}, timeout=900))
    out.append(Instance("maps.attrmap", "h_maps", {"depth": 0, "widget": True}, timeout=900))
    for colors in (1, 16, 88, 256, 2 ** 24):
        out.append(Instance("sgr.c%d" % colors, "h_sgr", {"colors": colors}, timeout=600))
    return out


def _build(I, node, leaves, tags, maxlen):
    """instantiate a shape: returns (markup, [(leaf text, effective tag)])"""
    from symx import uw

    def rec(n, cur):
        if isinstance(n, list):
            ms, fl = [], []
            for x in n:
                m, f = rec(x, cur)
                ms.append(m)
                fl += f
            return ms, fl
        if isinstance(n, tuple):
            t = tags[n[0]]
            m, f = rec(n[1], t)
            return (t, m), f
        txt = leaves[n]
        return txt, [(txt, cur)]

    return rec(node, None)


def h_markup(I, shape, maxlen):
    from urwid import util
    from symx import uw

    node = SHAPES[shape]
    names = sorted({x for x in str(node).replace("'", " ").replace(",", " ").replace("(", " ").replace(")", " ").replace("[", " ").replace("]", " ").split() if x[0] in "Lt"})
    leaves, tags = {}, {}
    for nme in names:
        if nme[0] == "L":
            ln = int(I.int("len_" + nme, 0, maxlen))
            leaves[nme] = uw.mk_text(I, "str", [I.int("%s_%d" % (nme, k), 32, 126) for k in range(ln)])
        else:
            tags[nme] = I.choice("tag_" + nme, ["a", "b", None])
    markup, flat = _build(I, node, leaves, tags, maxlen)
    text, al = util.decompose_tagmarkup(markup)
    exp_attr = []
    exp_cps = []
    for txt, tg in flat:
        cps = uw.cps_of(txt)
        exp_cps += cps
        exp_attr += [tg] * len(cps)
    I.check("text_is_concatenation", text == uw.mk_text(I, "str", exp_cps) if exp_cps else len(text) == 0)
    got = []
    for at, run in al:
        I.check("run_positive_or_zero", run >= 0)
        got += [at] * run
    # trailing None run may be dropped
    while len(exp_attr) > len(got) and exp_attr[-1] is None:
        exp_attr = exp_attr[:-1]
    I.check("each_character_carries_innermost_tag", got == exp_attr)


CHOICES = ["ascii", " ", "\n", "é", "一"]


def h_layout(I, wrap, align, L, maxw):
    import urwid
    from urwid import text_layout, util
    from symx import uw

    uw.stub_width(I)
    uw.stub_cache(I)
    uw.stub_codecs(I)
    util.set_encoding("utf-8")
    cps = []
    for i in range(L):
        k = I.choice("kind%d" % i, CHOICES)
        cps.append(I.int("c%d" % i, 33, 126) if k == "ascii" else ord(k))
    t = uw.mk_text(I, "str", cps)
    # attribute runs with symbolic lengths
    nruns = int(I.int("nruns", 1, 3))
    names = ["a", "b", "c"]
    cuts = sorted(int(I.int("cut%d" % k, 0, L)) for k in range(nruns - 1))
    bounds = [0] + cuts + [L]
    attr = [(names[k], bounds[k + 1] - bounds[k]) for k in range(nruns)]
    per_char = []
    for nm, run in attr:
        per_char += [nm] * run
    w = int(I.int("width", 1, maxw))
    txt = urwid.Text("", align=align, wrap=wrap)
    txt._text = t
    txt._attrib = [a for a in attr]
    lay = text_layout.default_layout.layout(t, w, align, wrap)
    canv = txt.render((w,))
    blen = [1 if (isinstance(c, int) and c < 128) or I.is_sym(c) else len(chr(c).encode("utf-8")) for c in cps]
    rows = list(canv.content())
    I.check("rows", len(rows) == len(lay))
    exp_rows = []
    for r, (line, row) in enumerate(zip(lay, rows)):
        got = []
        for at, cs, seg in row:
            got += [at] * len(seg)
        # expected per byte, from the layout line after trimming to the width as the renderer does
        tl = text_layout.trim_line(line, t, 0, w)
        exp = []
        unknown = False
        for sg in tl:
            if len(sg) == 3 and not isinstance(sg[2], bytes):
                for o in range(int(sg[1]), int(sg[2])):
                    exp += [per_char[o]] * blen[o]
            elif len(sg) == 3:
                exp += ["?"] * len(sg[2])  # inserted text (ellipsis mark): attribute not specified
            elif sg[1] is None:
                exp += [None] * int(sg[0])
            else:
                exp += ["pad"] * int(sg[0])  # padding replacing half of a cut wide character
        # right fill added by TextCanvas up to the width
        ok = len(got) >= len(exp)
        I.check("row_%d_long_enough" % r, ok)
        if not ok:
            exp_rows.append((tl, exp))
            continue
        for k, e in enumerate(exp):
            if e in ("?", "pad"):
                continue
            I.check("row_%d_byte_%d_attribute" % (r, k), got[k] == e)
        I.check("row_%d_fill_cells_carry_no_attribute" % r, all(g is None for g in got[len(exp):]))
        exp_rows.append((tl, exp))
    # clipping the rendered canvas (Overlay, Columns, scrolling do this) never shifts an attribute onto a neighbouring cell:
    # per screen column, the clipped view shows the attribute the full canvas has in that column
    if w >= 2 and rows and any((not I.is_sym(c)) and c >= 0x1100 for c in cps):
        # (only rows containing a double-width character: clipping narrow text cuts between characters)
        from urwid import str_util

        # every left clip up to the right edge, and the right clip by one column
        cl = int(I.int("clip_left", 0, w - 1))
        cc = w - cl if cl else w - 1
        widths = [1 if (I.is_sym(c) or c < 0x1100) else 2 for c in cps]
        clipped = list(canv.content(cl, 0, cc, len(rows)))
        for r, ((tl, _exp), crow) in enumerate(zip(exp_rows, clipped)):
            full = []
            for sg in tl:
                if len(sg) == 3 and not isinstance(sg[2], bytes):
                    for o in range(int(sg[1]), int(sg[2])):
                        full += [per_char[o]] * widths[o]
                elif len(sg) == 3:
                    full += ["?"] * int(sg[0])
                elif sg[1] is None:
                    full += [None] * int(sg[0])
                else:
                    full += ["?"] * int(sg[0])
            full += [None] * (w - len(full))
            gotc = []
            for at, _cs, seg in crow:
                gotc += [at] * int(str_util.calc_width(seg, 0, len(seg)))
            I.check("clipped_row_%d_width" % r, len(gotc) == cc)
            for k, e in enumerate(full[cl: cl + cc]):
                if e != "?" and k < len(gotc):
                    I.check("clipped_row_%d_column_%d_attribute" % (r, k), gotc[k] == e)


def h_maps(I, depth, widget):
    import urwid
    from urwid import canvas as cv
    from symx import uw

    uw.stub_cache(I)
    domain = [None, "a", "b"]
    runs = [(I.choice("leaf_attr%d" % k, domain), 1) for k in range(3)]
    leaf = cv.TextCanvas([b"xyz"], [runs], maxcol=3)
    c = cv.CompositeCanvas(leaf)
    expect = [a for a, _r in runs]
    for d in range(depth):
        m = dict(I.choice("map%d" % d, [{}, {None: "a"}, {"a": "b"}, {"a": "b", "b": "a"}, {None: "z", "b": "z"}, {"a": None}]))
        c = cv.CompositeCanvas(c)
        c.fill_attr_apply(m)
        expect = [m.get(a, a) for a in expect]
    row = list(c.content())[0]
    got = []
    for at, cs, seg in row:
        got += [at] * len(seg)
    I.check("outer_map_applied_to_inner_result", got == expect)
    if not widget:
        return
    # AttrMap widget: focus map used iff focus and it is not None
    t = urwid.Text([(runs[0][0], "x"), (runs[1][0], "y")]) if False else urwid.Text("xy")
    t._attrib = [(runs[0][0], 1), (runs[1][0], 1)]
    amap = {k: "n" + str(k) for k in domain if bool(I.bool("amap_has_%s" % k))}
    fmap = None if bool(I.bool("no_focus_map")) else {k: "f" + str(k) for k in domain if bool(I.bool("fmap_has_%s" % k))}
    w = urwid.AttrMap(t, amap, fmap)
    for focus in (False, True):
        row = list(w.render((2,), focus).content())[0]
        got = []
        for at, cs, seg in row:
            got += [at] * len(seg)
        use = fmap if (focus and fmap is not None) else amap
        I.check("attrmap_focus_%s" % focus, got == [use.get(a, a) for a in (runs[0][0], runs[1][0])])


def _decode_sgr(esc):
    """(fg, bg, flags) from an SGR sequence ESC [ params m"""
    assert esc.startswith("\x1b[") and esc.endswith("m"), repr(esc)
    ps = [int(p) if p else 0 for p in esc[2:-1].split(";")]
    fg = bg = None
    flags = set()
    i = 0
    while i < len(ps):
        p = ps[i]
        if p == 0:
            fg = bg = None
            flags = set()
        elif p in (1, 3, 4, 5, 7, 9):
            flags.add({1: "bold", 3: "italics", 4: "underline", 5: "blink", 7: "standout", 9: "strikethrough"}[p])
        elif 30 <= p <= 37:
            fg = ("basic", p - 30)
        elif 90 <= p <= 97:
            fg = ("basic", p - 90 + 8)
        elif p == 39:
            fg = None
        elif 40 <= p <= 47:
            bg = ("basic", p - 40)
        elif 100 <= p <= 107:
            bg = ("basic", p - 100 + 8)
        elif p == 49:
            bg = None
        elif p in (38, 48):
            if ps[i + 1] == 5:
                v = ("high", ps[i + 2])
                i += 2
            else:
                v = ("true", tuple(ps[i + 2:i + 5]))
                i += 4
            if p == 38:
                fg = v
            else:
                bg = v
        i += 1
    return fg, bg, flags


def h_sgr(I, colors):
    from urwid.display import common
    from symx import uw

    scr = uw.make_screen(I)
    scr.set_terminal_properties(colors=colors, bright_is_bold=bool(I.bool("bright_is_bold")))
    basics = list(common._BASIC_COLORS)
    fgs = ["default"] + (basics if colors > 1 else []) + (["h17", "h87", "#f00", "g50"] if colors >= 88 else []) + (["#123456"] if colors == 2 ** 24 else [])
    bgs = ["default"] + (basics[:8] if colors > 1 else []) + (["h30", "g70"] if colors >= 88 else []) + (["#0a0b0c"] if colors == 2 ** 24 else [])
    fg = I.choice("fg", fgs)
    bg = I.choice("bg", bgs)
    style = I.choice("style", ["", "bold", "italics", "underline", "blink", "standout", "strikethrough", "bold,underline"])
    spec = common.AttrSpec(fg + ("," + style if style else ""), bg, colors)
    esc = scr._attrspec_to_escape(spec)
    dfg, dbg, flags = _decode_sgr(esc)
    want_flags = set(style.split(",")) - {""}
    # foreground
    if not (spec.foreground_basic or spec.foreground_high or spec.foreground_true):
        I.check("default_foreground", dfg is None)
    elif spec.foreground_basic:
        n = spec.foreground_number
        if n > 7 and scr.fg_bright_is_bold:
            I.check("bright_foreground_as_bold", dfg == ("basic", n - 8) and "bold" in flags)
            want_flags = want_flags | {"bold"}
        else:
            I.check("basic_foreground", dfg == ("basic", n))
    elif spec.foreground_high:
        I.check("high_foreground", dfg == ("high", spec.foreground_number))
    else:
        I.check("true_foreground", dfg == ("true", tuple(spec.get_rgb_values()[:3])))
    if not (spec.background_basic or spec.background_high or spec.background_true):
        I.check("default_background", dbg is None)
    elif spec.background_basic:
        n = spec.background_number
        I.check("basic_background", dbg == ("basic", n) or (n > 7 and scr.bg_bright_is_blink))
    elif spec.background_high:
        I.check("high_background", dbg == ("high", spec.background_number))
    else:
        I.check("true_background", dbg == ("true", tuple(spec.get_rgb_values()[3:])))
    I.check("style_flags", flags == want_flags)
    # palette: undefined names resolve to the default entry; defined names to their entry for this depth
    scr.register_palette_entry("name1", "dark red", "light gray", "bold", "#f00" if colors >= 88 else None, "g20" if colors >= 88 else None)
    e = scr._pal_escape.get("name1")
    I.check("palette_entry_registered", e is not None)
    if e is not None:
        pfg, pbg, pfl = _decode_sgr(e)
        if colors == 1:
            I.check("mono_entry_used", pfl == {"bold"} and pfg is None)
        elif colors == 16:
            I.check("basic_entry_used", pfg == ("basic", 1))
        else:
            I.check("high_entry_used", pfg is not None and pfg[0] in ("high", "true"))
    I.check("undefined_name_has_no_entry", "nope" not in scr._pal_escape)
