"""C08 - container focus is always a valid child and input follows the focus path."""
from symx.api import And, Iff, Implies, Instance, Ite, Not, Or

META = {
    "bounds": {
        "containers": "Pile, Columns, GridFlow, Frame, Overlay with 0-3 abstract children (selectability a symbolic Boolean each) and one level of nesting (Pile in Columns, Columns in Pile); "
                      "one operation from a state reached by construction + a symbolic focus assignment (inductive step)",
        "operations": "focus_position = p for any integer p; every navigation key and one character; contents insert / delete / clear at a symbolic index; set_focus_path; render with focus; "
                      "sizes symbolic and unbounded",
    },
    "outside": ["ListBox (C07)", "more than 3 children / 2 levels", "mouse-driven focus changes (C09 covers delivery)"],
    "stubs": ["abstract children recording keypress/render calls", "CanvasCache disabled"],
    "assumptions": [],
}

KEYS = ["up", "down", "left", "right", "page up", "page down", "home", "end", "x", "tab"]


def instances(tier):
    out = []
    for cont in ("pile", "columns", "gridflow", "frame", "overlay", "pile_in_columns", "columns_in_pile"):
        ns = {"frame": (3,), "overlay": (2,)}.get(cont, (0, 1, 3) if tier == "quick" else (0, 1, 2, 3))
        for n in ns:
            out.append(Instance("%s.n%d.setpos" % (cont, n), "h_setpos", {"cont": cont, "n": n}, timeout=300))
            if n:
                for key in KEYS:
                    out.append(Instance("%s.n%d.key.%s" % (cont, n, key.replace(" ", "_")), "h_key", {"cont": cont, "n": n, "key": key}, timeout=300))
                if not (tier == "quick" and n == 3 and cont in ("columns", "columns_in_pile")):
                    out.append(Instance("%s.n%d.render" % (cont, n), "h_render", {"cont": cont, "n": n}, timeout=300))
                else:
                    out.append(Instance("%s.n2.render" % cont, "h_render", {"cont": cont, "n": 2}, timeout=300))
                out.append(Instance("%s.n%d.path" % (cont, n), "h_path", {"cont": cont, "n": n}, timeout=300))
            if cont == "frame":
                for op in ("remove_header", "remove_footer", "replace_header", "replace_footer", "replace_body"):
                    out.append(Instance("frame.parts.%s" % op, "h_frame_parts", {"op": op}, timeout=300))
            if cont in ("pile", "columns", "gridflow"):
                for op in ("insert", "delete", "clear", "assign"):
                    out.append(Instance("%s.n%d.contents.%s" % (cont, n, op), "h_contents", {"cont": cont, "n": n, "op": op}, timeout=300))
    return out


def _leaf(I, name, box=False):
    from symx import uw

    sel = I.bool("sel_" + name)
    return (uw.ABox if box else uw.AFlow)(I, name, sel)


def _mk(I, cont, n):
    """(widget, leaves, size, direct-children-count)"""
    import urwid
    from symx import uw

    uw._AFlow.MAX_ROWS = 2  # child heights are not the subject here (rows are enumerated by Pile's cursor search)

    cols = I.int("cols", 1)
    rows = I.int("rows", 1)
    if cont == "pile":
        leaves = [_leaf(I, "c%d" % i) for i in range(n)]
        return urwid.Pile(leaves), leaves, (cols,)
    if cont == "columns":
        leaves = [_leaf(I, "c%d" % i) for i in range(n)]
        # (at most two weighted columns: three symbolic real divisions make the width arithmetic slow for z3; widths are C19's subject)
        spec = [l if i < 2 else (I.int("given%d" % i, 1), l) for i, l in enumerate(leaves)]
        return urwid.Columns(spec, dividechars=I.int("dividechars", 0)), leaves, (cols,)
    if cont == "gridflow":
        leaves = [_leaf(I, "c%d" % i) for i in range(n)]
        return urwid.GridFlow(leaves, I.int("cell_width", 1), 1, 0, "left"), leaves, (cols,)
    if cont == "frame":
        h, b, f = _leaf(I, "hdr"), _leaf(I, "body", box=True), _leaf(I, "ftr")
        return urwid.Frame(b, h, f), [h, b, f], (cols, rows)
    if cont == "overlay":
        t, b = _leaf(I, "top", box=True), _leaf(I, "bottom", box=True)
        return urwid.Overlay(t, b, "center", I.int("width", 1), "middle", I.int("height", 1)), [t, b], (cols, rows)
    if cont == "pile_in_columns":
        inner = [_leaf(I, "c%d" % i) for i in range(n)]
        other = _leaf(I, "o")
        p = urwid.Pile(inner)
        return urwid.Columns([p, other]), inner + [other], (cols,)
    if cont == "columns_in_pile":
        inner = [_leaf(I, "c%d" % i) for i in range(n)]
        other = _leaf(I, "o")
        c = urwid.Columns([l if i < 2 else (I.int("given%d" % i, 1), l) for i, l in enumerate(inner)])
        return urwid.Pile([c, other]), inner + [other], (cols,)
    raise KeyError(cont)


def _invariant(I, w, tag=""):
    """focus validity of one container"""
    import urwid

    if isinstance(w, urwid.Frame):
        I.check("frame_focus_part_valid" + tag, w.focus_position in ("header", "body", "footer") and w.focus is {"header": w.header, "body": w.body, "footer": w.footer}[w.focus_position])
        return
    if isinstance(w, urwid.Overlay):
        I.check("overlay_focus_is_top" + tag, w.focus is w.top_w and w.focus_position == 1)
        return
    n = len(w.contents)
    if n == 0:
        I.check("empty_reports_no_focus" + tag, w.focus is None)
        try:
            w.focus_position
            I.check("empty_position_raises_IndexError" + tag, False)
        except IndexError:
            I.check("empty_position_raises_IndexError" + tag, True)
        return
    p = w.focus_position
    I.check("focus_position_in_range" + tag, And(p >= 0, p < n))
    I.check("focus_is_child_at_position" + tag, w.contents[int(p)][0] is w.focus)


def _focus_path_leaves(w):
    """widgets on the focus path, outermost first"""
    out = []
    cur = w
    while cur is not None:
        out.append(cur)
        cur = getattr(cur, "focus", None)
        if hasattr(cur, "original_widget"):
            out.append(cur)
    return out


def _set_sym_focus(I, w, name="f"):
    import urwid

    if isinstance(w, (urwid.Frame, urwid.Overlay)):
        if isinstance(w, urwid.Frame):
            w.focus_position = I.choice("focus_part", ["header", "body", "footer"])
        return
    if len(w.contents):
        w.contents.focus = int(I.int(name, 0, len(w.contents) - 1))  # any valid focus (representation invariant)


def h_setpos(I, cont, n):
    import urwid
    from symx import uw

    uw.stub_cache(I)
    w, leaves, size = _mk(I, cont, n)
    _set_sym_focus(I, w)
    _invariant(I, w, "_before")
    if isinstance(w, urwid.Frame):
        for part in ("header", "body", "footer"):
            w.focus_position = part
            _invariant(I, w, "_" + part)
        try:
            w.focus_position = "nonsense"
            I.check("invalid_part_rejected", False)
        except IndexError:
            I.check("invalid_part_rejected", True)
        return
    if isinstance(w, urwid.Overlay):
        try:
            w.focus_position = int(I.int("p", -2, 3))
        except IndexError:
            pass
        _invariant(I, w)
        return
    nn = len(w.contents)
    before = w.focus
    p = I.int("p")
    try:
        w.focus_position = p
        ok = True
    except IndexError:
        ok = False
    I.check("valid_position_accepted_invalid_rejected", Iff(And(p >= 0, p < nn), ok) if nn else not ok)
    if ok:
        I.check("focus_is_the_assigned_child", w.focus is w.contents[int(p)][0])
    else:
        I.check("failed_assignment_leaves_focus", w.focus is before)
    _invariant(I, w, "_after")


def h_key(I, cont, n, key):
    import urwid
    from symx import uw

    uw.stub_cache(I)
    w, leaves, size = _mk(I, cont, n)
    _set_sym_focus(I, w)
    inner = w.focus if cont in ("pile_in_columns", "columns_in_pile") else None
    if inner is not None and hasattr(inner, "contents"):
        _set_sym_focus(I, inner, "f_inner")
    if isinstance(w, urwid.Frame):
        I.assume(w.focus.selectable() if True else True)
    for l in leaves:
        del l.seen[:]
    path_before = _focus_path_leaves(w)
    r = w.keypress(size, key)
    for l in leaves:
        got = [s for s in l.seen if s[0] == "keypress"]
        if got:
            I.check("keypress_only_on_focus_path", l in path_before)
            I.check("key_offered_unchanged", all(s[2] is key for s in got))
    I.check("unhandled_key_returned_unchanged", r is None or r is key)
    _invariant(I, w, "_after")
    if inner is not None and hasattr(inner, "contents"):
        _invariant(I, inner, "_inner_after")
    if key in ("up", "down", "left", "right") and not isinstance(w, (urwid.Frame, urwid.Overlay)):
        nf = w.focus
        if nf is not None and nf is not path_before[1]:
            I.check("arrow_key_moves_focus_only_onto_selectable", nf.selectable())


def h_render(I, cont, n):
    import urwid
    from symx import uw

    uw.stub_cache(I)
    w, leaves, size = _mk(I, cont, n)
    _set_sym_focus(I, w)
    for l in leaves:
        del l.seen[:]
    path = _focus_path_leaves(w)
    w.render(size, True)
    for l in leaves:
        for what, sz, foc in l.seen:
            if what == "render" and foc is not False and (foc is True or bool(foc)):
                I.check("only_focus_path_rendered_with_focus", l in path)
    lf = [l for l in leaves if l in path]
    for l in lf:
        rs = [s for s in l.seen if s[0] == "render"]
        if rs:
            I.check("focus_leaf_rendered_with_focus", any(s[2] is True or bool(s[2]) for s in rs))


def h_path(I, cont, n):
    import urwid
    from symx import uw

    uw.stub_cache(I)
    w, leaves, size = _mk(I, cont, n)
    _set_sym_focus(I, w)
    inner = w.focus if cont in ("pile_in_columns", "columns_in_pile") else None
    if inner is not None and hasattr(inner, "contents"):
        _set_sym_focus(I, inner, "f_inner")
    path = w.get_focus_path()
    leaf_before = _focus_path_leaves(w)[-1]
    # move the focus elsewhere, then restore
    if hasattr(w, "contents") and not isinstance(w, (urwid.Frame, urwid.Overlay)) and len(w.contents):
        w.focus_position = int(I.int("other", 0, len(w.contents) - 1))
    w.set_focus_path(path)
    I.check("focus_path_restored", w.get_focus_path() == path)
    I.check("same_leaf_in_focus", _focus_path_leaves(w)[-1] is leaf_before)
    bad = list(path)
    if bad and isinstance(bad[0], int) and cont not in ("pile_in_columns", "columns_in_pile"):
        bad[0] = int(I.int("bad_pos", -2, n + 2))
        try:
            w.set_focus_path(bad)
            okp = True
        except IndexError:
            okp = False
        valid = (bad[0] == 1) if isinstance(w, urwid.Overlay) else (0 <= bad[0] < len(w.contents))
        I.check("invalid_path_entry_raises_IndexError", okp == valid)
    _invariant(I, w, "_after")


def h_contents(I, cont, n, op):
    import urwid
    from symx import uw

    uw.stub_cache(I)
    w, leaves, size = _mk(I, cont, n)
    _set_sym_focus(I, w)
    focus_before = w.focus
    new = _leaf(I, "new")
    opt = w.options() if cont != "gridflow" else w.options()
    nn = len(w.contents)
    idx = int(I.int("idx", -nn - 1, nn + 1))
    exc = None
    try:
        if op == "insert":
            w.contents.insert(idx, (new, opt))
        elif op == "delete":
            del w.contents[idx]
        elif op == "clear":
            del w.contents[:]
        else:
            w.contents = [(new, opt)] + [(l, opt) for l in leaves[: max(0, idx)]]
    except IndexError as e:
        exc = e
    _invariant(I, w, "_after")
    kids = [c[0] for c in w.contents]
    I.check("selectable_iff_a_child_is", Iff(w.selectable(), Or(*[k.selectable() for k in kids]) if kids else False))
    if focus_before is not None and focus_before in kids and op in ("insert",):
        I.check("focus_keeps_its_widget_across_insert", w.focus is focus_before)


def h_frame_parts(I, op):
    """Replacing or removing header / footer / body keeps the focus on an existing part."""
    import urwid
    from symx import uw

    uw.stub_cache(I)
    w, leaves, size = _mk(I, "frame", 3)
    _set_sym_focus(I, w)
    new = _leaf(I, "new")
    if op == "remove_header":
        w.header = None
    elif op == "remove_footer":
        w.footer = None
    elif op == "replace_header":
        w.header = new
    elif op == "replace_footer":
        w.footer = new
    else:
        w.body = _leaf(I, "newbody", box=True)
    part = w.focus_position
    existing = {"header": w.header, "body": w.body, "footer": w.footer}
    I.check("focus_part_exists", part in existing and existing[part] is not None)
    I.check("focus_is_that_part", w.focus is existing.get(part))
    for l in leaves + [new]:
        del l.seen[:]
    r = w.keypress(size, "x")
    I.check("unhandled_key_returned", r == "x")
    path = w.get_focus_path()
    I.check("focus_path_names_existing_part", path[0] == part)
