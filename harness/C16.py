"""C16 - focus-tracking lists behave as Python lists whose focus follows its item."""
from symx.api import And, Iff, Implies, Instance, Ite, Not, Or

META = {
    "bounds": {
        "list": "n distinct items, n <= 4 (quick) / 5 (thorough); one operation from an arbitrary valid focus (inductive step)",
        "indices": "int index and slice start/stop symbolic in [-n-2, n+2] (or None), step symbolic in [-3, 3] minus 0 (or None); "
                   "these are concretised by slice.indices()/list C code, i.e. enumerated through the solver; the focus stays symbolic",
        "replacement": "0..3 new items",
    },
    "outside": ["lists longer than 5", "non-distinct items (focus identity would be ambiguous)", "steps beyond +-3"],
    "stubs": [],
    "assumptions": ["representation invariant: 0 <= _focus < len when non-empty, _focus == 0 when empty (re-proved after every step)"],
}

SLICE_SHAPES = ["ss", "Ns", "sN", "NN"]  # start/stop: s = symbolic int, N = None


def instances(tier):
    q = tier == "quick"
    out = []
    ns = [0, 1, 2, 3, 4] if q else [0, 1, 2, 3, 4, 5]
    for n in ns:
        for op in ("delitem", "setitem", "insert", "pop", "pop_default", "append", "extend", "remove", "remove_missing", "reverse", "sort", "iadd", "imul", "clear"):
            out.append(Instance("%s.n%d" % (op, n), "h_mfl", {"n": n, "op": op}, timeout=300))
        for shape in SLICE_SHAPES:
            for step in ("N", "s"):
                out.append(Instance("delslice.%s.%s.n%d" % (shape, step, n), "h_mfl", {"n": n, "op": "delslice", "shape": shape, "step": step}, timeout=600))
                for k in (0, 1, 2, 3):
                    if q and step == "s" and k == 3:
                        continue
                    out.append(Instance("setslice.%s.%s.k%d.n%d" % (shape, step, k, n), "h_mfl", {"n": n, "op": "setslice", "shape": shape, "step": step, "k": k}, timeout=600))
    return out


def _expected_focus(old, new, fv, inplace):
    """The statement's focus rule, for a concrete old focus index."""
    if not new:
        return None
    if not old:
        return 0
    if fv in inplace:
        return inplace[fv]
    item = old[fv]
    if item in new:
        return new.index(item)
    for x in old[fv + 1:]:
        if x in new:
            return new.index(x)
    return len(new) - 1


def h_mfl(I, n, op, shape="ss", step="N", k=0):
    from urwid.widget.monitored_list import MonitoredFocusList

    old = list(range(100, 100 + n))
    ml = MonitoredFocusList(old, focus=0)
    f = I.int("focus", 0, max(n - 1, 0))
    ml._focus = f
    ref = list(old)
    mods, fev = [], []
    ml.set_modified_callback(lambda: mods.append(1))
    ml.set_focus_changed_callback(lambda nf: fev.append(nf))
    newitems = list(range(900, 900 + k))
    lo, hi = -n - 2, n + 2

    def sl():
        a = I.int("start", lo, hi) if shape[0] == "s" else None
        b = I.int("stop", lo, hi) if shape[1] == "s" else None
        c = None
        if step == "s":
            c = I.int("step", -3, 3)
            I.assume(c != 0)
        return slice(a, b, c)

    inplace = {}
    exc_ref = exc_ml = None
    args = None
    # --- the same operation on the built-in list (oracle) and on the MonitoredFocusList -------------------------
    if op in ("delitem", "setitem", "insert", "pop"):
        args = I.int("index", lo, hi)
    elif op in ("delslice", "setslice"):
        args = sl()
    elif op == "remove":
        args = I.int("which", 0, max(n - 1, 0))
    elif op == "imul":
        args = I.int("times", -1, 2)

    def apply(lst):
        if op == "delitem":
            del lst[args]
        elif op == "setitem":
            lst[args] = 900
        elif op == "insert":
            lst.insert(args, 900)
        elif op == "pop":
            return lst.pop(args)
        elif op == "pop_default":
            return lst.pop()
        elif op == "append":
            lst.append(900)
        elif op == "extend":
            lst.extend([900, 901])
        elif op == "remove":
            lst.remove(100 + args.__index__() if n else 555)
        elif op == "remove_missing":
            lst.remove(555)
        elif op == "reverse":
            lst.reverse()
        elif op == "sort":
            lst.sort(key=lambda v: -v)
        elif op == "iadd":
            lst += [900, 901]
        elif op == "imul":
            lst *= args.__index__()
        elif op == "clear":
            lst.clear()
        elif op == "delslice":
            del lst[args]
        elif op == "setslice":
            lst[args] = list(newitems)

    try:
        r_ref = apply(ref)
    except (IndexError, ValueError, TypeError) as e:
        exc_ref = type(e).__name__
    try:
        r_ml = apply(ml)
    except (IndexError, ValueError, TypeError) as e:
        exc_ml = type(e).__name__
    I.note("op", (op, str(args), exc_ref, exc_ml, list(ml)))
    I.check("same_exception_as_list", exc_ref == exc_ml)
    if exc_ref is not None or exc_ml is not None:
        I.check("failed_call_leaves_contents", list(ml) == old)
        I.check("failed_call_leaves_focus", ml._focus == f)
        I.check("failed_call_no_modified_callback", len(mods) == 0)
        return
    new = list(ml)
    I.check("contents_equal_builtin_list", new == ref)
    if op in ("pop", "pop_default"):
        I.check("pop_value", r_ml == r_ref)
    # positions replaced in place
    if op == "setitem":
        i = args.__index__()
        inplace[i % n] = i % n
    elif op == "setslice":
        idx = list(range(*args.indices(n)))
        st, sp, stp = args.indices(n)
        if stp == 1:
            for j, p in enumerate(idx):
                if j < len(newitems):
                    inplace[p] = p
        else:
            for p in idx:
                inplace[p] = p
    elif op == "imul" and new:
        inplace = {i: i for i in range(n)}
    nf = ml.focus
    # invariant
    if not new:
        I.check("focus_none_iff_empty", nf is None)
        I.check("rep_invariant", ml._focus == 0)
    else:
        I.check("focus_none_iff_empty", nf is not None)
        I.check("rep_invariant", And(ml._focus >= 0, ml._focus < len(new)))
        if n:
            exp = None
            for fv in range(n - 1, -1, -1):
                e = _expected_focus(old, new, fv, inplace)
                exp = e if exp is None else Ite(f == fv, e, exp)
            I.check("focus_follows_item", nf == exp)
            changed_content = new != old or op in ("setitem", "setslice", "sort", "reverse")
            I.check("focus_changed_callback", Iff(nf != f, len(fev) == 1) if len(fev) <= 1 else False)
            if fev:
                I.check("focus_changed_callback_value", fev[-1] == nf)
        # n == 0: there was no focus item; the statement only requires an in-range focus (rep_invariant above)
    if new != old:
        I.check("modified_callback_once", len(mods) == 1)
    else:
        I.check("modified_callback_at_most_once", len(mods) <= 1)
