"""C14 - signals reach every connected handler exactly once per emit."""
from symx.api import And, Iff, Implies, Instance, Ite, Not, Or

META = {
    "level": "model_checking",
    "bounds": {
        "history": "3 handlers with behaviours from a concrete catalogue, optionally connected beforehand in a given order (the same handler twice with another in between), a final emit after every history, histories of 3 operations (4 in the thorough tier for the plain and disconnect-self catalogues; the other catalogues did not finish at 4 within the budget); each operation's kind and target are solver-chosen "
                   "selectors (connect / disconnect by arguments / disconnect by key / emit a registered signal / emit another registered signal / connect to an unregistered name / "
                   "drop the weak argument of a handler and collect garbage)",
    },
    "outside": ["more than 3 handlers, histories longer than 4", "several senders sharing handlers", "recursion deeper than one nested emit"],
    "stubs": [],
    "assumptions": ["no arithmetic content: the solver's role is the enumeration of the selector space with a coverage certificate (stated in DESIGN section 1)"],
    "explanation": "selector enumeration through the solver with coverage certificate",
}

BEHAVIOURS = ["plain", "true", "disc_self", "disc_prev", "disc_next", "connect_new", "emit_again"]


def instances(tier):
    q = tier == "quick"
    out = []
    combos = [("plain", "plain", "plain"), ("true", "plain", "plain"), ("plain", "disc_self", "plain"), ("plain", "disc_prev", "plain"), ("disc_next", "plain", "plain"),
              ("plain", "connect_new", "plain"), ("plain", "emit_again", "true"), ("disc_prev", "disc_next", "plain"), ("disc_self", "disc_self", "true")]
    for beh in combos:
        for weak in (False, True):
            if q and weak and beh not in (("plain", "plain", "plain"), ("plain", "disc_prev", "plain")):
                continue
            out.append(Instance("hist.%s.%s" % ("-".join(beh), "weak" if weak else "strong"), "h_hist", {"beh": list(beh), "weak": weak, "L": 4 if (not q and not weak and beh in (("plain", "plain", "plain"), ("plain", "disc_self", "plain"))) else 3}, timeout=600 if q else 3000))
    for pre in ([0, 1, 0], [0, 0, 1], [1, 0, 2, 0]):
        out.append(Instance("hist.dup%s.strong" % "".join(map(str, pre)), "h_hist", {"beh": ["plain", "plain", "plain"], "weak": False, "L": 2 if q else 3, "pre": pre}, timeout=600 if q else 3000))
    out.append(Instance("gc", "h_gc", {}, timeout=120))
    return out


def h_hist(I, beh, weak, L, pre=()):
    import gc

    from urwid import signals as S

    sigs = S.Signals()

    class Sender:
        pass

    class Arg:
        def __init__(self, n):
            self.n = n

    sigs.register(Sender, ["a", "b"])
    sender = Sender()
    n = len(beh)
    calls = []  # (emit depth, handler id, args)
    keys = {}
    wargs = {i: Arg(i) for i in range(n)}
    model = []  # connection order: list of (key-id, handler id)
    conn_seq = [0]
    depth = [0]
    extra_connected = []
    mods = []  # (when: len(calls), what) - changes made during an emit

    def mk(i):
        def h(*args):
            # (the weak argument is recorded by its number: keeping the object would keep it alive)
            calls.append((depth[0], i, tuple(("ARG", a.n) if isinstance(a, Arg) else a for a in args)))
            b = beh[i] if i < n else "plain"
            if b == "disc_self":
                do_disconnect_key(i)
            elif b == "disc_prev" and i > 0:
                do_disconnect_key(i - 1)
            elif b == "disc_next" and i + 1 < n:
                do_disconnect_key(i + 1)
            elif b == "connect_new":
                if 99 not in [m[1] for m in model]:
                    do_connect(99)
            elif b == "emit_again" and depth[0] == 1:
                do_emit("a")
            return b == "true"
        return h

    handlers = {i: mk(i) for i in list(range(n)) + [99]}

    def do_connect(i):
        kw = {}
        if weak and i in wargs and wargs[i] is not None:
            kw["weak_args"] = [wargs[i]]
        kw["user_args"] = ["u%d" % i]
        k = sigs.connect(sender, "a", handlers[i], **kw)
        conn_seq[0] += 1
        keys.setdefault(i, []).append(k)
        model.append((k, i))
        mods.append(("connect", i, depth[0]))

    def do_disconnect_key(i):
        if keys.get(i):
            k = keys[i].pop(0)
            sigs.disconnect_by_key(sender, "a", k)
            model[:] = [m for m in model if m[0] is not k]
            mods.append(("disconnect", i, depth[0]))
        else:
            sigs.disconnect_by_key(sender, "a", S.Key())  # not connected: must be a no-op

    def do_disconnect_args(i):
        kw = {"user_args": ["u%d" % i]}
        if weak and wargs.get(i) is not None:
            kw["weak_args"] = [wargs[i]]
        sigs.disconnect(sender, "a", handlers[i], **kw)
        for m in list(model):
            if m[1] == i and (not weak or wargs.get(i) is not None):
                model.remove(m)
                keys[i].remove(m[0])
                mods.append(("disconnect", i, depth[0]))
                break

    emits = []
    dead = set()

    def do_emit(name):
        depth[0] += 1
        start_model = list(model)
        wa0 = {k: None for k in wargs}   # (no references to the weak arguments are kept)
        c0 = len(calls)
        m0 = len(mods)
        res = sigs.emit(sender, name, "x", 7)
        depth[0] -= 1
        emits.append((name, depth[0] + 1, start_model, list(model), calls[c0:], res, mods[m0:], set(dead), dict(wa0)))
        return res

    for i in pre:
        do_connect(i)   # connections that exist before the history (the same handler may be connected more than once)
    for step in range(L + 1):
        if step == L:
            # a final emit shows which handlers the history left connected
            if depth[0] == 0:
                do_emit("a")
            break
        opts = [(k, t) for k in ("connect", "disc_args", "disc_key") + (("drop_weak",) if weak else ()) for t in range(n)] + [("emit_a", 0), ("emit_b", 0), ("connect_bad", 0)]
        kind, tgt = I.choice("op%d" % step, opts)
        if kind == "connect":
            if wargs.get(tgt) is None and weak:
                continue
            do_connect(tgt)
        elif kind == "disc_args":
            do_disconnect_args(tgt)
        elif kind == "disc_key":
            do_disconnect_key(tgt)
        elif kind == "emit_a":
            do_emit("a")
        elif kind == "emit_b":
            do_emit("b")
        elif kind == "connect_bad":
            try:
                sigs.connect(sender, "nope", handlers[tgt])
                I.check("unregistered_name_rejected", False)
            except NameError:
                I.check("unregistered_name_rejected", True)
        elif kind == "drop_weak":
            if weak and wargs.get(tgt) is not None:
                wargs[tgt] = None
                gc.collect()
                dead.add(tgt)
                model[:] = [m for m in model if m[1] != tgt]
                keys[tgt] = []
    I.note("emits", [(e[0], [c[1] for c in e[4]], e[5]) for e in emits])
    for (name, d, start, end, cs, res, ms, dead_then, wargs_then) in emits:
        top = [c for c in cs if c[0] == d]
        if name == "b":
            I.check("other_signal_calls_nobody", top == [])
            continue
        start_ids = [m[1] for m in start]
        stay = [m for m in start if any(m[0] is e[0] for e in end)]
        stay_ids = [m[1] for m in stay]
        called_ids = [c[1] for c in top]
        # every handler that stays connected throughout is called exactly once, in connection order
        for k, hid in stay:
            I.check("staying_handler_called_exactly_once", called_ids.count(hid) == stay_ids.count(hid) or any(m[1] == hid for m in start if m not in stay) or hid == 99)
        order = [h for h in called_ids if h in stay_ids]
        # (a handler connected twice cannot be told apart in the call log: order is asserted when the connections are distinct handlers)
        I.check("connection_order", order == [h for h in stay_ids if h in order][: len(order)] or len(set(start_ids)) != len(start_ids))
        for c in top:
            I.check("never_called_unless_connected_at_some_point_of_the_emit", c[1] in start_ids or any(m[0] == "connect" and m[1] == c[1] for m in ms))
            exp = ((("ARG", c[1]),) if (weak and c[1] in wargs_then) else ()) + ("u%d" % c[1], "x", 7)
            I.check("arguments", len(c[2]) == len(exp) and all(a is b or a == b for a, b in zip(c[2], exp)))
            I.check("dead_weak_arg_never_called", c[1] not in dead_then)
        I.check("result_is_or_of_truthiness", bool(res) == any(beh[c[1]] == "true" for c in top if c[1] < n))


def h_gc(I):
    """The signal machinery keeps neither the sender nor a weak argument alive."""
    import gc
    import weakref

    from urwid import signals as S

    sigs = S.Signals()

    class Sender:
        pass

    class Arg:
        pass

    sigs.register(Sender, ["a"])
    sender = Sender()
    arg = Arg()
    use_weak = bool(I.bool("use_weak_arg"))
    emit_first = bool(I.bool("emit_first"))
    seen = []
    if use_weak:
        sigs.connect(sender, "a", lambda a, *r: seen.append(1), weak_args=[arg])
    else:
        sigs.connect(sender, "a", lambda *r: seen.append(1))
    if emit_first:
        sigs.emit(sender, "a")
    wr_s, wr_a = weakref.ref(sender), weakref.ref(arg)
    del arg
    gc.collect()
    if use_weak:
        I.check("weak_arg_collected", wr_a() is None)
        sigs.emit(sender, "a")
        I.check("handler_with_dead_weak_arg_not_called", len(seen) == (1 if emit_first else 0))
    del sender
    gc.collect()
    I.check("sender_collected", wr_s() is None)
