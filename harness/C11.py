"""C11 - screen-width arithmetic is consistent for text in every encoding."""
from symx.api import And, Iff, Implies, Instance, Ite, Not, Or, sabs, ssum

META = {
    "bounds": {
        "text": "length L <= 3 (quick) / 5 (thorough; 3 for fully symbolic UTF-8 bytes, 2 for the str/bytes agreement and the encoder); every character an arbitrary Unicode scalar value (str) or arbitrary byte (bytes)",
        "offsets": "start/end offsets enumerated (concrete) over the text; target columns symbolic and unbounded",
        "width": "get_char_width replaced by an uninterpreted function into {0,1,2} agreeing with wcwidth on ASCII/C0/C1",
    },
    "outside": ["texts longer than the bound", "conformance of wcwidth's tables to Unicode (urwid delegates to wcwidth)"],
    "stubs": ["str_util.get_char_width -> uninterpreted W", "util.codecs -> shim dispatching symbolic text to the proxy's UTF-8/ASCII encoders"],
    "assumptions": ["str inputs contain no lone surrogates"],
}


def instances(tier):
    q = tier == "quick"
    out = []
    for n in (1, 2, 3, 4):
        out.append(Instance("decode_one.n%d" % n, "h_decode_one", {"n": n}, timeout=300))
    for L in ((1, 2, 3) if q else (1, 2, 3, 4, 5)):
        out.append(Instance("str.additive.L%d" % L, "h_additive", {"kind": "str", "L": L, "enc": "utf8"}, timeout=600))
        out.append(Instance("str.text_pos.L%d" % L, "h_text_pos", {"kind": "str", "L": L, "enc": "utf8"}, timeout=600))
        out.append(Instance("str.trim.L%d" % L, "h_trim", {"kind": "str", "L": L, "enc": "utf8"}, timeout=600))
        for enc in ("narrow", "wide"):
            out.append(Instance("%s.text_pos.L%d" % (enc, L), "h_text_pos", {"kind": "bytes", "L": L, "enc": enc}, timeout=600))
            out.append(Instance("%s.move.L%d" % (enc, L), "h_move", {"kind": "bytes", "L": L, "enc": enc}, timeout=600))
    for L in ((1, 2) if q else (1, 2, 3)):
        out.append(Instance("utf8.additive.L%d" % L, "h_additive", {"kind": "bytes", "L": L, "enc": "utf8"}, timeout=900))
        out.append(Instance("utf8.text_pos.L%d" % L, "h_text_pos", {"kind": "bytes", "L": L, "enc": "utf8"}, timeout=900))
        out.append(Instance("utf8.move.L%d" % L, "h_move", {"kind": "bytes", "L": L, "enc": "utf8"}, timeout=900))
    for L in ((1,) if q else (1, 2)):
        out.append(Instance("agree.L%d" % L, "h_agree", {"L": L}, timeout=900))
    for L in ((1, 2) if q else (1, 2)):
        out.append(Instance("encode.L%d" % L, "h_encode", {"L": L}, timeout=900))
    for shape in (["d", "ad", "da", "dd", "ada", "dad", "D", "aD", "Da", "DD", "dD", "Dd", "aDa", "g", "ag", "gg", "gD"] if q else
                  ["d", "ad", "da", "dd", "ada", "dad", "add", "dda", "aad", "daa", "adad", "ddd", "D", "aD", "Da", "DD", "dD", "Dd", "aDa", "DaD", "aDD", "g", "ag", "ga", "gg", "gD", "Dg", "gd", "aga"]):
        out.append(Instance("dbcs.%s" % shape, "h_dbcs", {"shape": shape}, timeout=600))
    return out


def _setup(I, enc):
    from urwid import str_util
    from symx import uw

    uw.stub_width(I)
    uw.stub_codecs(I)
    str_util.set_byte_encoding(enc)


def _utf8_chars(I, t, a, c):
    """Decode t[a:c] with CPython's rules (the proxy decoder / bytes.decode): list of (offset, next, code point), or None if invalid."""
    from symx import uw

    try:
        s = t[a:c].decode("utf-8")
    except UnicodeDecodeError:
        return None
    cps = uw.cps_of(s)
    out = []
    pos = a
    for cp in cps:
        if I.symbolic:
            n = 1 if not I.is_sym(cp) and cp < 0x80 else None
            # length from the lead byte (concrete per path: the decoder forked on its class)
            b = t[pos]
            if bool(b < 0x80):
                n = 1
            elif bool(b < 0xE0):
                n = 2
            elif bool(b < 0xF0):
                n = 3
            else:
                n = 4
        else:
            n = len(chr(cp).encode("utf-8"))
        out.append((pos, pos + n, cp))
        pos += n
    return out


def h_decode_one(I, n):
    """decode_one on n arbitrary bytes: agrees with UTF-8 on well-formed input, always yields a code point, never lands inside a sequence."""
    from urwid import str_util
    from symx import uw

    _setup(I, "utf8")
    t = I.text("b", "bytes", n)
    o, nxt = str_util.decode_one(t, 0)
    I.check("advance_1_to_4", And(nxt >= 1, nxt <= 4))
    I.check("result_is_a_code_point", And(o >= 0, o <= 0x10FFFF))
    chars = None
    # the longest well-formed prefix character, by CPython's decoder
    for k in range(1, n + 1):
        cs = _utf8_chars(I, t, 0, k)
        if cs is not None and len(cs) == 1:
            chars = cs
            break
    if chars is not None:
        I.check("wellformed_value", o == chars[0][2])
        I.check("wellformed_length", nxt == chars[0][1])
    # (nothing is asserted about *which* malformed sequences are replaced by '?': the statement does not say)


def _bounds(I, t, kind, enc, a, c):
    """character boundaries of t[a:c] as a list of offsets (including a and c), or None when not well-formed"""
    if kind == "str" or enc == "narrow":
        return list(range(a, c + 1))
    if enc == "utf8":
        cs = _utf8_chars(I, t, a, c)
        if cs is None:
            return None
        return [x[0] for x in cs] + [c]
    return None


def _width(I, t, kind, enc, a, b):
    """independent width oracle of t[a:b] (a, b boundaries)"""
    from symx import uw

    if kind == "str":
        return ssum([uw.char_width(I, cp) for cp in uw.cps_of(t)[a:b]])
    if enc == "utf8":
        return ssum([uw.char_width(I, cp) for (_p, _n, cp) in _utf8_chars(I, t, a, b)])
    return b - a


def _chain(I, t, kind, enc, L):
    """offsets on character starts as the implementation itself scans the text from 0 (decode_one chain for utf8)"""
    from urwid import str_util

    if kind == "str" or enc != "utf8":
        return list(range(L + 1))
    out = [0]
    i = 0
    while i < L:
        _o, i = str_util.decode_one(t, i)
        i = int(i)
        out.append(min(i, L))
    return out


def h_additive(I, kind, L, enc):
    from urwid import str_util

    _setup(I, enc)
    t = I.text("t", kind, L)
    ch = _chain(I, t, kind, enc, L)
    for a in ch:
        for c in [x for x in ch if x >= a]:
            bs = _bounds(I, t, kind, enc, a, c)
            try:
                wac = str_util.calc_width(t, a, c)
            except ValueError as e:
                I.check("calc_width_no_exception[%d:%d]" % (a, c), False)
                continue
            if bs is None:
                continue
            I.check("width_matches_table[%d:%d]" % (a, c), wac == _width(I, t, kind, enc, a, c))
            for b in bs:
                I.check("additive[%d:%d:%d]" % (a, b, c), wac == str_util.calc_width(t, a, b) + str_util.calc_width(t, b, c))


def h_text_pos(I, kind, L, enc):
    from urwid import str_util

    _setup(I, enc)
    t = I.text("t", kind, L)
    pref = I.int("pref_col", 0)
    from symx import uw

    ch = _chain(I, t, kind, enc, L)
    for a in ch:
        for c in [x for x in ch if x >= a]:
            bs = _bounds(I, t, kind, enc, a, c) if enc != "wide" else None
            p, sc = str_util.calc_text_pos(t, a, c, pref)
            I.check("pos_in_range[%d:%d]" % (a, c), And(p >= a, p <= c))
            I.check("col_not_beyond_target[%d:%d]" % (a, c), sc <= pref)
            if enc == "wide":
                if bool(p < c) and bool(p > a):
                    I.check("not_inside_double_byte[%d:%d]" % (a, c), str_util.within_double_byte(t, a, p) != 2)
                I.check("col_is_width[%d:%d]" % (a, c), sc == p - a)
                continue
            if bs is None:
                continue
            pi = int(p)
            I.check("on_boundary[%d:%d]" % (a, c), pi in bs)
            if pi in bs:
                I.check("col_is_width[%d:%d]" % (a, c), sc == _width(I, t, kind, enc, a, pi))
                if pi < c:
                    nxt = bs[bs.index(pi) + 1]
                    I.check("maximal[%d:%d]" % (a, c), sc + _width(I, t, kind, enc, pi, nxt) > pref)


def h_move(I, kind, L, enc):
    from urwid import str_util

    _setup(I, enc)
    t = I.text("t", kind, L)
    a, c = 0, L
    bs = _bounds(I, t, kind, enc, a, c)
    for p in range(a, c):
        try:
            nx = str_util.move_next_char(t, p, c)
            I.check("next_in_range[%d]" % p, And(nx > p, nx <= c))
        except IndexError:
            I.check("move_next_no_exception[%d]" % p, False)
            continue
        if bs is not None and p in bs:
            I.check("next_is_next_boundary[%d]" % p, nx == bs[bs.index(p) + 1])
            back = str_util.move_prev_char(t, a, nx)
            I.check("next_then_prev_returns[%d]" % p, back == p)
    for e in range(a + 1, c + 1):
        try:
            pv = str_util.move_prev_char(t, a, e)
            I.check("prev_in_range[%d]" % e, And(pv >= a, pv < e))
        except IndexError:
            I.check("move_prev_no_exception[%d]" % e, False)


def h_trim(I, kind, L, enc):
    """calc_trim_text: total width exact; pads exactly when a wide character straddles the edge."""
    from urwid import util
    from symx import uw

    _setup(I, enc)
    t = I.text("t", kind, L)
    cps = uw.cps_of(t)
    ws = [uw.char_width(I, cp) for cp in cps]
    cum = [0]
    for w in ws:
        cum.append(cum[-1] + w)
    total = cum[-1]
    sc = I.int("start_col", 0)
    ec = I.int("end_col", 0)
    I.assume(sc < ec)
    I.assume(ec <= total)
    spos, epos, pl, pr = util.calc_trim_text(t, 0, L, sc, ec)
    I.check("offsets_ordered", And(spos >= 0, spos <= epos, epos <= L))
    si, ei = int(spos), int(epos)
    I.check("total_width_exact", pl + pr + (cum[ei] - cum[si]) == ec - sc)
    strad_l = Or(*[And(cum[i] < sc, sc < cum[i] + ws[i]) for i in range(L)])
    strad_r = Or(*[And(cum[i] < ec, ec < cum[i] + ws[i]) for i in range(L)])
    I.check("pad_left_iff_straddle", Iff(pl == 1, strad_l))
    I.check("pad_right_iff_straddle", Iff(pr == 1, strad_r))
    I.check("pads_are_flags", And(Or(pl == 0, pl == 1), Or(pr == 0, pr == 1)))


def h_agree(I, L):
    """str and its UTF-8 encoding give the same widths and the same (character) positions."""
    from urwid import str_util
    from symx import uw

    _setup(I, "utf8")
    s = I.text("s", "str", L)
    b = s.encode("utf-8")
    cps = uw.cps_of(s)
    # byte offset of each character
    offs = [0]
    for cp in cps:
        n = 1 if bool(cp < 0x80) else 2 if bool(cp < 0x800) else 3 if bool(cp < 0x10000) else 4
        offs.append(offs[-1] + n)
    I.check("width_equal", str_util.calc_width(s, 0, L) == str_util.calc_width(b, 0, len(b)))
    pref = I.int("pref_col", 0)
    ps, scs = str_util.calc_text_pos(s, 0, L, pref)
    pb, scb = str_util.calc_text_pos(b, 0, len(b), pref)
    I.check("text_pos_col_equal", scs == scb)
    I.check("text_pos_same_character", pb == offs[int(ps)])
    for i in range(L):
        I.check("is_wide_equal[%d]" % i, str_util.is_wide_char(s, i) == str_util.is_wide_char(b, offs[i]))
        I.check("next_char_equal[%d]" % i, str_util.move_next_char(b, offs[i], len(b)) == offs[i + 1])


def h_encode(I, L):
    """apply_target_encoding: DEC special characters become their alternate-charset byte with a matching run."""
    from urwid import util
    from urwid.display import escape
    from symx import uw

    _setup(I, "utf8")
    util.set_encoding("ascii")  # forces the DEC special translation on (_use_dec_special)
    try:
        s = I.text("s", "str", L)
        if I.symbolic:
            from symx.text import SymDict

        out, cs = util.apply_target_encoding(s)
        cps = uw.cps_of(s)
        outb = uw.cps_of(out)
        n = len(outb)
        I.check("run_lengths_total", sum(r for _c, r in cs) == n)
        I.check("no_shift_bytes_in_output", And(*[And(x != 14, x != 15) for x in outb]) if outb else True)
        # per character expectations (only when no SO/SI appears in the input, so positions line up)
        plain = And(*[And(c != 14, c != 15) for c in cps])
        if n == L:
            csflat = []
            for c_, r in cs:
                csflat += [c_] * r
            for i, cp in enumerate(cps):
                for k, v in escape.DEC_SPECIAL_CHARMAP.items():
                    alt = v[1] if isinstance(v, str) and len(v) == 3 else None
                    if alt is None:
                        continue
                    I.check("dec_char_%x[%d]" % (k, i), Implies(And(plain, cp == k), And(outb[i] == ord(alt), csflat[i] == "0")))
    finally:
        util.set_encoding("utf-8")


def h_dbcs(I, shape):
    """within_double_byte / calc_text_pos / move_* on text built from ASCII bytes and (lead, trail) pairs."""
    from urwid import str_util
    from symx import uw

    _setup(I, "wide")
    cps, role = [], []
    for i, ch in enumerate(shape):
        if ch == "a":
            cps.append(I.int("a%d" % i, 0x00, 0x7F))
            role.append(0)
        elif ch == "d":
            cps.append(I.int("lead%d" % i, 0xA1, 0xFE))  # EUC-JP / EUC-KR / GB2312 style pairs
            cps.append(I.int("trail%d" % i, 0xA1, 0xFE))
            role += [1, 2]
        elif ch == "D":
            cps.append(I.int("lead%d" % i, 0x81, 0xFE))  # Big5 / GBK / UHC style pairs with an ASCII-range trail byte
            cps.append(I.int("trail%d" % i, 0x40, 0x7E))
            role += [1, 2]
        else:
            cps.append(I.int("lead%d" % i, 0x81, 0xFE))  # GBK / UHC pairs with a high trail byte
            cps.append(I.int("trail%d" % i, 0x80, 0xFE))
            role += [1, 2]
    t = uw.mk_text(I, "bytes", cps)
    n = len(cps)
    for pos in range(n):
        I.check("within[%d]" % pos, str_util.within_double_byte(t, 0, pos) == role[pos])
    starts = [i for i in range(n) if role[i] != 2] + [n]
    for p in starts[:-1]:
        nx = str_util.move_next_char(t, p, n)
        I.check("next[%d]" % p, nx == starts[starts.index(p) + 1])
        I.check("prev_of_next[%d]" % p, str_util.move_prev_char(t, 0, nx) == p)
        I.check("is_wide[%d]" % p, str_util.is_wide_char(t, p) == (role[p] == 1))
    pref = I.int("pref_col", 0)
    p, sc = str_util.calc_text_pos(t, 0, n, pref)
    I.check("text_pos_on_boundary", Or(*[p == s for s in starts]))
    I.check("text_pos_not_beyond", And(sc <= pref, sc == p))
    I.check("text_pos_maximal", Or(p == n, p + 2 > pref, And(*[Implies(p == s, role[s] == 0) for s in starts[:-1]]) & (p + 1 > pref)))
