"""C19 - containers partition the available space exactly and proportionally."""
from symx.api import And, Implies, Instance, Ite, Not, Or, sabs, smax, smin, ssum

META = {
    "bounds": {
        "pad/fill": "maxcol/maxrow >= 1, margins >= 0, given size >= 0, min size >= 0: all unbounded integers; percentages concrete "
                    "(quick: 0,1,33,50,67,99,100; thorough: every 0..100)",
    },
    "outside": ["float weights", "more than 4 columns / pile items", "custom sizing subclasses"],
    "stubs": ["abstract child widgets (rows()/pack() uninterpreted, >= 0 / >= 1)", "CanvasCache disabled"],
    "assumptions": ["float expressions int(a*b/100+0.5) evaluated in exact rational arithmetic (operands < 2^40, DESIGN 3.1)"],
}

PCT_Q = [0, 1, 33, 50, 67, 99, 100]


def _pcts(tier):
    return PCT_Q if tier == "quick" else list(range(0, 101))


def instances(tier):
    out = []
    for fn, aligns in (("pad", ["left", "center", "right"]), ("fill", ["top", "middle", "bottom"])):
        for wt in ("given", "clip", "relative"):
            for al in aligns + ["relative"]:
                for minw in (False, True):
                    if minw and wt != "relative":
                        continue
                    wps = _pcts(tier) if wt == "relative" else [None]
                    aps = _pcts(tier) if al == "relative" else [None]
                    if tier != "quick" and wt == "relative" and al == "relative":
                        aps = PCT_Q  # 101 x 7 rather than 101 x 101
                    for wp in wps:
                        for ap in aps:
                            out.append(Instance("%s.%s.%s%s.w%s.a%s" % (fn, wt, al, ".min" if minw else "", wp, ap), "h_padfill",
                                                {"fn": fn, "wtype": wt, "align": al, "minw": minw, "wpct": wp, "apct": ap}, timeout=60))
    return out


def h_padfill(I, fn, wtype, align, minw, wpct, apct):
    """calculate_left_right_padding / calculate_top_bottom_filler on unbounded integers."""
    from urwid.widget.filler import calculate_top_bottom_filler
    from urwid.widget.padding import calculate_left_right_padding

    maxc = I.int("maxcol", 1)
    m0 = I.int("margin_lo", 0)  # left / top
    m1 = I.int("margin_hi", 0)  # right / bottom
    minv = I.int("min_size", 0) if minw else None
    if wtype == "relative":
        amount = wpct
    else:
        amount = I.int("size", 0)
    a_amount = apct if align == "relative" else 0
    f = calculate_left_right_padding if fn == "pad" else calculate_top_bottom_filler
    lo, hi = f(maxc, align, a_amount, wtype, amount, minv, m0, m1)
    child = maxc - lo - hi
    pct = {"left": 0, "top": 0, "center": 50, "middle": 50, "right": 100, "bottom": 100}.get(align, apct)

    # the size the caller asked for (oracle written independently of the implementation)
    if wtype == "relative":
        avail = smax(maxc - m0 - m1, 0)
        req = (avail * wpct * 2 + 100) // 200  # round-half-up of avail*pct/100
        if minw:
            req = smax(req, minv)
    else:
        req = amount
    fits = req + m0 + m1 <= maxc
    clip_mode = wtype == "clip" and fn == "pad"  # Filler never clips (documented: "no negative values for filler")
    if not clip_mode:
        I.check("margins_nonneg", And(lo >= 0, hi >= 0))
        I.check("child_nonneg", child >= 0)
    I.check("fits_gets_requested", Implies(fits, And(child == req, lo >= m0, hi >= m1)))
    if not clip_mode:
        I.check("nofit_gets_remaining", Implies(Not(fits), child == smin(req, maxc)))
    else:
        I.check("clip_negative_only_when_wider", Implies(Or(lo < 0, hi < 0), req > maxc))
        I.check("clip_child_is_requested", child == req)
    # the spare space is split by the alignment percentage to within rounding
    spare = maxc - req - m0 - m1
    I.check("spare_split", Implies(fits, sabs(100 * (lo - m0) - pct * spare) <= 50))
