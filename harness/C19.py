"""C19 - containers partition the available space exactly and proportionally."""
from symx.api import And, Implies, Instance, Ite, Not, Or, sabs, smax, smin, ssum

META = {
    "bounds": {
        "pad/fill": "maxcol/maxrow >= 1, margins >= 0, given size >= 0, min size >= 0: all unbounded integers; percentages concrete "
                    "(quick: 0,1,33,50,67,99,100; thorough: every 0..100)",
    },
    "outside": ["float weights", "more than 4 columns / pile items", "custom sizing subclasses"],
    "stubs": ["abstract child widgets (rows()/pack() uninterpreted, >= 0 / >= 1)", "CanvasCache disabled"],
    "assumptions": ["float expressions int(a*b/100+0.5) evaluated in exact rational arithmetic (operands < 2^40, DESIGN 3.1)"],
}

PCT_Q = [0, 1, 33, 50, 67, 99, 100]


def _pcts(tier):
    return PCT_Q if tier == "quick" else list(range(0, 101))


def instances(tier):
    out = []
    for fn, aligns in (("pad", ["left", "center", "right"]), ("fill", ["top", "middle", "bottom"])):
        for wt in ("given", "clip", "relative"):
            for al in aligns + ["relative"]:
                for minw in (False, True):
                    if minw and wt != "relative":
                        continue
                    wps = _pcts(tier) if wt == "relative" else [None]
                    aps = _pcts(tier) if al == "relative" else [None]
                    if tier != "quick" and wt == "relative" and al == "relative":
                        aps = PCT_Q  # 101 x 7 rather than 101 x 101
                    for wp in wps:
                        for ap in aps:
                            out.append(Instance("%s.%s.%s%s.w%s.a%s" % (fn, wt, al, ".min" if minw else "", wp, ap), "h_padfill",
                                                {"fn": fn, "wtype": wt, "align": al, "minw": minw, "wpct": wp, "apct": ap}, timeout=60))
    out += _col_instances(tier) + _pile_instances(tier) + _grid_instances(tier)
    return out


def h_padfill(I, fn, wtype, align, minw, wpct, apct):
    """calculate_left_right_padding / calculate_top_bottom_filler on unbounded integers."""
    from urwid.widget.filler import calculate_top_bottom_filler
    from urwid.widget.padding import calculate_left_right_padding

    maxc = I.int("maxcol", 1)
    m0 = I.int("margin_lo", 0)  # left / top
    m1 = I.int("margin_hi", 0)  # right / bottom
    minv = I.int("min_size", 0) if minw else None
    if wtype == "relative":
        amount = wpct
    else:
        amount = I.int("size", 0)
    a_amount = apct if align == "relative" else 0
    f = calculate_left_right_padding if fn == "pad" else calculate_top_bottom_filler
    lo, hi = f(maxc, align, a_amount, wtype, amount, minv, m0, m1)
    child = maxc - lo - hi
    pct = {"left": 0, "top": 0, "center": 50, "middle": 50, "right": 100, "bottom": 100}.get(align, apct)

    # the size the caller asked for (oracle written independently of the implementation)
    if wtype == "relative":
        avail = smax(maxc - m0 - m1, 0)
        req = (avail * wpct * 2 + 100) // 200  # round-half-up of avail*pct/100
        if minw:
            req = smax(req, minv)
    else:
        req = amount
    fits = req + m0 + m1 <= maxc
    clip_mode = wtype == "clip" and fn == "pad"  # Filler never clips (documented: "no negative values for filler")
    if not clip_mode:
        I.check("margins_nonneg", And(lo >= 0, hi >= 0))
        I.check("child_nonneg", child >= 0)
    I.check("fits_gets_requested", Implies(fits, And(child == req, lo >= m0, hi >= m1)))
    if not clip_mode:
        I.check("nofit_gets_remaining", Implies(Not(fits), child == smin(req, maxc)))
    else:
        I.check("clip_negative_only_when_wider", Implies(Or(lo < 0, hi < 0), req > maxc))
        I.check("clip_child_is_requested", child == req)
    # the spare space is split by the alignment percentage to within rounding
    spare = maxc - req - m0 - m1
    I.check("spare_split", Implies(fits, sabs(100 * (lo - m0) - pct * spare) <= 50))


# ------------------------------------------------------------------------------------------------------------
# Columns.column_widths / Pile.get_item_rows

WEIGHTS = [1, 2, 3, 7]


def _col_instances(tier):
    import itertools

    out = []
    maxn = 3 if tier == "quick" else 4
    for n in range(1, maxn + 1):
        for kinds in itertools.product("gpw", repeat=n):
            nw = kinds.count("w")
            if tier == "quick":
                wsets = [tuple(WEIGHTS[(i * 2 + 1) % 4] for i in range(nw))] if nw else [()]
                if nw >= 2:
                    wsets.append(tuple(1 for _ in range(nw)))
            else:
                wsets = list(itertools.product(WEIGHTS if n < 4 else [1, 3], repeat=nw))
            for ws in wsets:
                for focus in range(n):
                    out.append(Instance("columns.%s.w%s.f%d" % ("".join(kinds), "-".join(map(str, ws)) or "x", focus), "h_columns",
                                        {"kinds": "".join(kinds), "weights": list(ws), "focus": focus}, timeout=120))
    return out


def h_columns(I, kinds, weights, focus):
    """Columns.column_widths on unbounded maxcol / given widths / packed widths / dividechars / min_width."""
    import urwid
    from symx import uw

    uw.stub_cache(I)
    n = len(kinds)
    maxcol = I.int("maxcol", 1)
    dc = I.int("dividechars", 0)
    minw = I.int("min_width", 1)
    ws = list(weights)
    spec, own, wts = [], [], []
    for i, k in enumerate(kinds):
        if k == "g":
            g = I.int("given%d" % i, 1)
            spec.append((g, uw.ABox(I, "c%d" % i)))
            own.append(g)
            wts.append(None)
        elif k == "p":
            ch = uw.AFixed(I, "c%d" % i)
            spec.append(("pack", ch))
            own.append(ch.pw)
            wts.append(None)
        else:
            wt = ws.pop(0)
            spec.append(("weight", wt, uw.ABox(I, "c%d" % i)))
            own.append(minw)
            wts.append(wt)
    cols = urwid.Columns(spec, dividechars=dc, focus_column=focus, min_width=minw)
    widths = cols.column_widths((maxcol,), False)
    I.note("widths", widths)
    I.check("len_le_n", len(widths) <= n)
    widths = list(widths) + [0] * (n - len(widths))
    I.check("nonneg", And(*[w >= 0 for w in widths]))
    for i, k in enumerate(kinds):
        if k in "gp":
            I.check("own_or_nothing_%d" % i, Or(widths[i] == own[i], widths[i] == 0))
    I.check("focus_visible_if_fits", Implies(own[focus] <= maxcol, widths[focus] > 0))
    vis = [Ite(w > 0, 1, 0) for w in widths]
    nvis = ssum(vis)
    total = ssum(widths) + dc * smax(nvis - 1, 0)
    I.check("total_le_maxcol", total <= maxcol)
    wshown = [Ite(widths[i] > 0, 1, 0) for i in range(n) if kinds[i] == "w"]
    if wshown:
        any_w = ssum(wshown) > 0
        I.check("exact_fill_when_weighted_shown", Implies(any_w, total == maxcol))
        # proportional to within one column unless min_width intervenes
        idx = [i for i in range(n) if kinds[i] == "w"]
        allshown = And(*[widths[i] > 0 for i in idx])
        noclamp = And(*[widths[i] > minw for i in idx])
        S = ssum([widths[i] for i in idx])
        WT = sum(wts[i] for i in idx)
        for i in idx:
            I.check("proportional_%d" % i, Implies(And(allshown, noclamp), sabs(widths[i] * WT - S * wts[i]) <= WT))


def _pile_instances(tier):
    import itertools

    out = []
    maxn = 3 if tier == "quick" else 4
    for n in range(1, maxn + 1):
        for kinds in itertools.product("gpw", repeat=n):
            nw = kinds.count("w")
            if nw == 0:
                continue  # a box Pile without weighted items is rejected with PileError (documented)
            if tier == "quick":
                wsets = [tuple(WEIGHTS[(i * 2 + 1) % 4] for i in range(nw))]
                if nw >= 2:
                    wsets.append(tuple(1 for _ in range(nw)))
            else:
                wsets = list(itertools.product(WEIGHTS if n < 4 else [1, 3], repeat=nw))
            for ws in wsets:
                out.append(Instance("pile.%s.w%s" % ("".join(kinds), "-".join(map(str, ws))), "h_pile", {"kinds": "".join(kinds), "weights": list(ws)}, timeout=120))
    return out


def h_pile(I, kinds, weights):
    """Pile.get_item_rows in box mode on unbounded maxrow / given heights / child rows."""
    import urwid
    from symx import uw

    uw.stub_cache(I)
    n = len(kinds)
    maxcol = I.int("maxcol", 1)
    maxrow = I.int("maxrow", 1)
    ws = list(weights)
    spec, own, wts = [], [], []
    for i, k in enumerate(kinds):
        if k == "g":
            g = I.int("given%d" % i, 1)
            spec.append(("given", g, uw.ABox(I, "c%d" % i)))
            own.append(g)
            wts.append(None)
        elif k == "p":
            ch = uw.AFlow(I, "c%d" % i)
            spec.append(("pack", ch))
            own.append(ch._r(maxcol, False))
            wts.append(None)
        else:
            wt = ws.pop(0)
            spec.append(("weight", wt, uw.ABox(I, "c%d" % i)))
            own.append(None)
            wts.append(wt)
    pile = urwid.Pile(spec)
    rows = pile.get_item_rows((maxcol, maxrow), False)
    I.note("rows", rows)
    I.check("len", len(rows) == n)
    I.check("nonneg", And(*[r >= 0 for r in rows]))
    static = 0
    for i, k in enumerate(kinds):
        if k in "gp":
            I.check("own_%d" % i, rows[i] == own[i])
            static = static + own[i]
    idx = [i for i in range(n) if kinds[i] == "w"]
    S = ssum([rows[i] for i in idx])
    I.check("exact_fill", Implies(static <= maxrow, ssum(rows) == maxrow))
    I.check("weighted_get_remaining", S == smax(maxrow - static, 0))
    WT = sum(wts[i] for i in idx)
    for i in idx:
        I.check("proportional_%d" % i, sabs(rows[i] * WT - S * wts[i]) <= WT)


def _grid_instances(tier):
    out = []
    for n in range(1, (4 if tier == "quick" else 6) + 1):
        for vsep in (0, 1, 2):
            out.append(Instance("grid.n%d.v%d" % (n, vsep), "h_grid", {"n": n, "vsep": vsep}, timeout=120))
    return out


def h_grid(I, n, vsep):
    """GridFlow.generate_display_widget: cell width, reading order, row breaks."""
    import urwid
    from symx import uw

    uw.stub_cache(I)
    maxcol = I.int("maxcol", 1)
    cw = I.int("cell_width", 1)
    hsep = I.int("h_sep", 0)
    cells = [uw.AFlow(I, "c%d" % i, selectable=(i % 2 == 1)) for i in range(n)]
    g = urwid.GridFlow(cells, cw, hsep, vsep, "left")
    w = g.generate_display_widget((maxcol,))
    rows = []
    for child, _opt in w.contents:
        if isinstance(child, urwid.Padding):
            rows.append(child.original_widget)
    flat = []
    cwm = smin(cw, maxcol)
    for c in rows:
        for cell, (t, amount, _b) in c.contents:
            flat.append(cell)
            I.check("cell_width", And(t == urwid.GIVEN, amount == cwm))
        I.check("h_sep", c.dividechars == hsep)
    I.check("reading_order", len(flat) == n and all(a is b for a, b in zip(flat, cells)))
    for r, c in enumerate(rows):
        k = len(c.contents)
        I.check("row_nonempty", k >= 1)
        if k >= 2:
            I.check("row_fits", k * cw + (k - 1) * hsep <= maxcol)
        if r < len(rows) - 1:
            I.check("break_only_when_next_does_not_fit", (k + 1) * cwm + k * hsep > maxcol if True else True)
    nd = sum(1 for child, _ in w.contents if isinstance(child, urwid.Divider))
    I.check("dividers", nd == (len(rows) - 1 if vsep else 0))
