"""Construction of each bundled event loop that imports here (shared by C12 and C13)."""

LOOPS = ["select", "asyncio", "tornado", "twisted", "trio", "zmq"]


def make_loop(urwid, name):
    """-> (event loop, closer)"""
    aio = None
    extra = []
    if name == "select":
        el = urwid.SelectEventLoop()
    elif name == "asyncio":
        import asyncio

        aio = asyncio.new_event_loop()
        el = urwid.AsyncioEventLoop(loop=aio)
    elif name == "tornado":
        import asyncio

        from tornado.ioloop import IOLoop

        io = IOLoop(make_current=False)   # owns a fresh asyncio loop
        el = urwid.TornadoEventLoop(io)
        extra.append(lambda: io.close(all_fds=False))   # (all_fds=True would also close descriptors that belong to the screen)
    elif name == "twisted":
        from twisted.internet.selectreactor import SelectReactor

        reactor = SelectReactor()
        el = urwid.TwistedEventLoop(reactor=reactor)

        def close_reactor():
            import os

            reactor.removeAll()
            for fd in (reactor.waker.i, reactor.waker.o):
                try:
                    os.close(fd)
                except OSError:
                    pass

        extra.append(close_reactor)
    elif name == "trio":
        el = urwid.TrioEventLoop()
    elif name == "zmq":
        el = urwid.ZMQEventLoop()
    else:
        raise KeyError(name)

    def close():
        for fn in extra:
            try:
                fn()
            except Exception:  # noqa: BLE001
                pass
        if aio is not None:
            try:
                aio.close()
            except Exception:  # noqa: BLE001
                pass

    return el, close
