"""Construction of each bundled event loop that imports here (shared by C12 and C13)."""

LOOPS = ["select", "asyncio", "tornado", "twisted", "trio", "zmq"]


def make_loop(urwid, name):
    """-> (event loop, closer)"""
    aio = None
    if name == "select":
        el = urwid.SelectEventLoop()
    elif name == "asyncio":
        import asyncio

        aio = asyncio.new_event_loop()
        el = urwid.AsyncioEventLoop(loop=aio)
    elif name == "tornado":
        import asyncio

        from tornado.ioloop import IOLoop

        aio = asyncio.new_event_loop()
        asyncio.set_event_loop(aio)
        el = urwid.TornadoEventLoop(IOLoop())
    elif name == "twisted":
        from twisted.internet.selectreactor import SelectReactor

        el = urwid.TwistedEventLoop(reactor=SelectReactor())
    elif name == "trio":
        el = urwid.TrioEventLoop()
    elif name == "zmq":
        el = urwid.ZMQEventLoop()
    else:
        raise KeyError(name)

    def close():
        if aio is not None:
            try:
                aio.close()
            except Exception:  # noqa: BLE001
                pass

    return el, close
