"""C01 - every widget renders a canvas of exactly the size its container asked for."""
from symx.api import And, Implies, Instance, Ite, Not, Or, sabs, smax, smin, ssum

from . import widgets

META = {
    "bounds": {
        "containers": "abstract children (rows()/pack() uninterpreted); cols, rows, margins, given sizes, dividechars, min sizes: unbounded ints; "
                      "weights / percentages / child counts (<= 4) concrete per configuration",
        "leaves": "20 bundled leaf widgets / thin decorations with catalogued parameters; every supported sizing mode, focus, and every size in 1..6 (quick) / 1..9 (thorough) "
                  "enumerated through the solver (concrete rendering; the solver contributes exhaustiveness only)",
    },
    "outside": ["more than 4 children per container", "TreeWidget, PopUpLauncher, Terminal", "custom layouts", "leaf widgets beyond the catalogued parameter values and sizes 1..6 (quick) / 1..9 (thorough)"],
    "stubs": ["CanvasCache.fetch/store disabled", "abstract children AFlow/ABox/AFixed returning SolidCanvas of the contract size"],
    "assumptions": ["children satisfy the widget contract: render returns a canvas of the requested size, rows() >= 0, pack() >= 1"],
}


def instances(tier):
    out = []
    for name, key, kw in widgets.configs(tier):
        for mode in ("box", "flow", "fixed"):
            for focus in (False, True):
                out.append(Instance("cont.%s.%s.%s" % (name, mode, "F" if focus else "N"), "h_container",
                                    {"key": key, "kw": kw, "mode": mode, "focus": focus}, timeout=120))
    for kind in sorted(LEAVES):
        out.append(Instance("leaf.%s" % kind, "h_leaf", {"kind": kind, "maxdim": 6 if tier == "quick" else 9}, timeout=600))
    return out


# ---- bundled leaf widgets (and thin decorations of them) with concrete catalogues: parameters and sizes are enumerated through the solver
def _leaf_progress(u, I):
    cur = I.choice("current", [-1, 0, 1, 33, 50, 99, 100, 101])
    done = I.choice("done", [1, 3, 100])
    satt = I.choice("satt", [None, "s"])
    return u.ProgressBar("n", "c", cur, done, satt)


def _leaf_bargraph(u, I):
    g = u.BarGraph(["bg", "1", "2"], satt=I.choice("satt", [None, {(1, 0): "1s", (2, 0): "2s"}]))
    data = I.choice("data", [[], [(0,)], [(1,), (2,)], [(3, 1), (0, 2), (5, 5)], [(9,), (0,), (4,), (4,), (1,), (7,), (2,)]])
    top = I.choice("top", [1, 5, 9])
    hl = I.choice("hlines", [None, [3], [8, 4, 1]])
    g.set_data(data, top, hl)
    return g


def _leaf_bigtext(u, I):
    font = I.choice("font", [u.Thin3x3Font, u.HalfBlock5x4Font, u.Thin6x6Font, u.HalfBlock7x7Font])()
    text = I.choice("text", ["", "1", "12:3", "a b", "\u4e2d", "x\ny"])
    return u.BigText(text, font)


def _leaf_divider(u, I):
    return u.Divider(I.choice("char", [" ", "-", "\u2500"]), I.choice("top", [0, 1, 2]), I.choice("bottom", [0, 1, 3]))


def _leaf_solidfill(u, I):
    return u.SolidFill(I.choice("char", [" ", "#", "\u2591"]))


def _leaf_button(u, I):
    return u.Button(I.choice("label", ["", "ok", "a longer label", "\u4e2d\u6587", "two\nlines"]))


def _leaf_checkbox(u, I):
    return u.CheckBox(I.choice("label", ["", "c", "a longer label", "\u4e2d"]), state=I.choice("state", [False, True, "mixed"]), has_mixed=True)


def _leaf_radio(u, I):
    grp = []
    u.RadioButton(grp, "first")
    return u.RadioButton(grp, I.choice("label", ["", "second choice", "\u4e2d"]))


def _leaf_icon(u, I):
    return u.SelectableIcon(I.choice("text", ["", "i", "icon text", "\u4e2d\u6587"]), I.choice("cursor_position", [0, 1, 5]))


def _leaf_text(u, I):
    return u.Text(I.choice("text", ["", "t", "some words to wrap", "\u4e2d\u6587 wide", "a\n\nb"]), I.choice("align", ["left", "center", "right"]), I.choice("wrap", ["space", "any", "clip", "ellipsis"]))


def _leaf_edit(u, I):
    e = u.Edit(I.choice("caption", ["", "c: ", "\u4e2d"]), I.choice("text", ["", "xy", "some words to wrap"]), multiline=I.choice("multiline", [False, True]))
    e.set_edit_pos(I.choice("pos", [0, 1, 99]))
    return e


def _leaf_intedit(u, I):
    return u.IntEdit(I.choice("caption", ["", "n="]), I.choice("default", [None, 0, 12345]))


def _leaf_linebox_text(u, I):
    return u.LineBox(u.Text(I.choice("text", ["", "boxed", "boxed words to wrap"])), title=I.choice("title", ["", "T", "a long title"]), title_align=I.choice("title_align", ["left", "center", "right"]))


def _leaf_attrmap(u, I):
    return u.AttrMap(u.Text(I.choice("text", ["", "mapped text"])), "a", "f")


def _leaf_disable(u, I):
    return u.WidgetDisable(u.Edit("d:", I.choice("text", ["", "zz zz zz"])))


def _leaf_placeholder(u, I):
    return u.WidgetPlaceholder(u.Text(I.choice("text", ["", "held text here"])))


def _leaf_vscale(u, I):
    return u.GraphVScale(I.choice("labels", [[], [(1, "1")], [(5, "five"), (2, "2"), (9, "nine")]]), I.choice("top", [1, 5, 10]))


def _leaf_padding_text(u, I):
    return u.Padding(u.Text(I.choice("text", ["", "pad", "padded words"])), I.choice("align", ["left", "center", "right"]), I.choice("width", ["pack", "clip", 3, ("relative", 50)]), left=I.choice("left", [0, 1]), right=I.choice("right", [0, 2]))


def _leaf_filler_text(u, I):
    return u.Filler(u.Text(I.choice("text", ["", "fill", "filled words to wrap"])), I.choice("valign", ["top", "middle", "bottom"]), top=I.choice("top", [0, 1]), bottom=I.choice("bottom", [0, 1]))


def _leaf_boxadapter(u, I):
    return u.BoxAdapter(u.SolidFill("b"), I.choice("height", [1, 2, 5]))


LEAVES = {"progressbar": _leaf_progress, "bargraph": _leaf_bargraph, "bigtext": _leaf_bigtext, "divider": _leaf_divider, "solidfill": _leaf_solidfill,
          "button": _leaf_button, "checkbox": _leaf_checkbox, "radiobutton": _leaf_radio, "selectableicon": _leaf_icon, "text": _leaf_text, "edit": _leaf_edit,
          "intedit": _leaf_intedit, "linebox_text": _leaf_linebox_text, "attrmap_text": _leaf_attrmap, "widgetdisable_edit": _leaf_disable,
          "placeholder_text": _leaf_placeholder, "graphvscale": _leaf_vscale, "padding_text": _leaf_padding_text, "filler_text": _leaf_filler_text,
          "boxadapter": _leaf_boxadapter}


def h_leaf(I, kind, maxdim):
    import urwid as u
    from urwid.canvas import CanvasCache

    w = LEAVES[kind](u, I)
    sizing = w.sizing()
    mode = I.choice("mode", ["box", "flow", "fixed"])
    I.assume({"box": u.BOX, "flow": u.FLOW, "fixed": u.FIXED}[mode] in sizing)
    focus = bool(I.bool("focus"))
    cols = int(I.int("cols", 1, maxdim)) if mode != "fixed" else None
    rows = int(I.int("rows", 1, maxdim)) if mode == "box" else None
    size = {"box": (cols, rows), "flow": (cols,), "fixed": ()}[mode]
    CanvasCache.clear()
    if mode == "flow":
        wrows = w.rows(size, focus)
    packed = w.pack(size, focus)
    canv = w.render(size, focus)
    I.note("leaf", {"widget": repr(w)[:120], "size": size, "focus": focus, "canvas": (canv.cols(), canv.rows()), "pack": tuple(packed)})
    content = list(canv.content())
    I.check("content_rows_eq_rows", len(content) == canv.rows())
    for r in content:
        I.check("content_row_width", sum(u.str_util.calc_width(t, 0, len(t)) for _a, _c, t in r) == canv.cols())
    if mode == "box":
        I.check("cols", canv.cols() == cols)
        I.check("rows", canv.rows() == rows)
    elif mode == "flow":
        I.check("cols", canv.cols() == cols)
        I.check("rows_eq_rows()", canv.rows() == wrows)
        I.check("pack_rows_eq_rows()", packed[1] == wrows)
        I.check("pack_cols_le_cols", packed[0] <= cols)
    else:
        I.check("cols_eq_pack", canv.cols() == packed[0])
        I.check("rows_eq_pack", canv.rows() == packed[1])
    cur = canv.cursor
    if cur is not None:
        I.check("cursor_inside", 0 <= cur[0] < max(canv.cols(), 1) and 0 <= cur[1] < max(canv.rows(), 1))
    if hasattr(w, "get_cursor_coords") and focus and w.selectable():
        I.check("cursor_eq_get_cursor_coords", w.get_cursor_coords(size) == cur)


def h_container(I, key, kw, mode, focus):
    import urwid
    from symx import uw

    uw.stub_cache(I)
    w, leaves, pre = widgets.BUILDERS[key](I, **kw)
    sizing = w.sizing()
    want = {"box": urwid.BOX, "flow": urwid.FLOW, "fixed": urwid.FIXED}[mode]
    # the property quantifies over sizing modes the widget *reports supporting*
    I.assume(want in sizing)
    cols = I.int("cols", 1)
    rows = I.int("rows", 1)
    size = {"box": (cols, rows), "flow": (cols,), "fixed": ()}[mode]
    if pre is not None:
        I.assume(pre)
    # rows()/pack() are asked *before* rendering: afterwards the real CanvasCache would answer from the canvas
    if mode == "flow":
        wrows = w.rows(size, focus)
    elif mode == "fixed":
        pc, pr = w.pack((), focus)
    for l in leaves:
        del l.seen[:]
    canv = w.render(size, focus)
    I.note("size", size)
    if mode == "box":
        I.check("cols", canv.cols() == cols)
        I.check("rows", canv.rows() == rows)
    elif mode == "flow":
        I.check("cols", canv.cols() == cols)
        I.check("rows_eq_rows()", canv.rows() == wrows)
    else:
        I.check("cols_eq_pack", canv.cols() == pc)
        I.check("rows_eq_pack", canv.rows() == pr)
    cur = canv.cursor
    if cur is not None:
        I.check("cursor_inside", And(cur[0] >= 0, cur[0] < canv.cols(), cur[1] >= 0, cur[1] < canv.rows()))
    for l in leaves:
        for what, sz, _f in l.seen:
            for d in sz:
                I.check("child_size_nonneg", d >= 0)
