"""C01 - every widget renders a canvas of exactly the size its container asked for."""
from symx.api import And, Implies, Instance, Ite, Not, Or, sabs, smax, smin, ssum

from . import widgets

META = {
    "bounds": {
        "containers": "abstract children (rows()/pack() uninterpreted); cols, rows, margins, given sizes, dividechars, min sizes: unbounded ints; "
                      "weights / percentages / child counts (<= 4) concrete per configuration",
    },
    "outside": ["more than 4 children per container", "TreeWidget, PopUpLauncher", "custom layouts"],
    "stubs": ["CanvasCache.fetch/store disabled", "abstract children AFlow/ABox/AFixed returning SolidCanvas of the contract size"],
    "assumptions": ["children satisfy the widget contract: render returns a canvas of the requested size, rows() >= 0, pack() >= 1"],
}


def instances(tier):
    out = []
    for name, key, kw in widgets.configs(tier):
        for mode in ("box", "flow", "fixed"):
            for focus in (False, True):
                out.append(Instance("cont.%s.%s.%s" % (name, mode, "F" if focus else "N"), "h_container",
                                    {"key": key, "kw": kw, "mode": mode, "focus": focus}, timeout=120))
    return out


def h_container(I, key, kw, mode, focus):
    import urwid
    from symx import uw

    uw.stub_cache(I)
    w, leaves, pre = widgets.BUILDERS[key](I, **kw)
    sizing = w.sizing()
    want = {"box": urwid.BOX, "flow": urwid.FLOW, "fixed": urwid.FIXED}[mode]
    # the property quantifies over sizing modes the widget *reports supporting*
    I.assume(want in sizing)
    cols = I.int("cols", 1)
    rows = I.int("rows", 1)
    size = {"box": (cols, rows), "flow": (cols,), "fixed": ()}[mode]
    if pre is not None:
        I.assume(pre)
    # rows()/pack() are asked *before* rendering: afterwards the real CanvasCache would answer from the canvas
    if mode == "flow":
        wrows = w.rows(size, focus)
    elif mode == "fixed":
        pc, pr = w.pack((), focus)
    for l in leaves:
        del l.seen[:]
    canv = w.render(size, focus)
    I.note("size", size)
    if mode == "box":
        I.check("cols", canv.cols() == cols)
        I.check("rows", canv.rows() == rows)
    elif mode == "flow":
        I.check("cols", canv.cols() == cols)
        I.check("rows_eq_rows()", canv.rows() == wrows)
    else:
        I.check("cols_eq_pack", canv.cols() == pc)
        I.check("rows_eq_pack", canv.rows() == pr)
    cur = canv.cursor
    if cur is not None:
        I.check("cursor_inside", And(cur[0] >= 0, cur[0] < canv.cols(), cur[1] >= 0, cur[1] < canv.rows()))
    for l in leaves:
        for what, sz, _f in l.seen:
            for d in sz:
                I.check("child_size_nonneg", d >= 0)
