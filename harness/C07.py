"""C07 - ListBox always shows a gap-free window of its items containing the focus."""
from symx.api import And, Iff, Implies, Instance, Ite, Not, Or, smax, smin, ssum

META = {
    "bounds": {
        "state": "inductive step: n = 3 abstract flow items with symbolic heights 0..2 (0..3 thorough) and symbolic selectability; "
                 "offset_rows symbolic >= 0, inset fraction from {0/1, 1/2, 1/3, 2/3}, focus position solver-chosen; maxrow symbolic 1..3 (1..4 thorough), maxcol symbolic unbounded; the quick tier runs every operation on the focus walker and five on the simple walker, thorough all on both",
        "operations": "render; up / down / page up / page down / home / end / a character; button-1 press and wheel at a symbolic row; set_focus(pos, coming_from) and "
                      "set_focus_valign; a second render at another height (resize); walker insert / delete / replace at a symbolic index; both list walkers",
    },
    "outside": ["item heights above 3, boxes taller than 4 rows, more than 3 items (larger bounds did not finish within the thorough budget)", "TreeListBox", "items with cursors (C09/C10 cover cursor geometry)"],
    "stubs": ["abstract items returning SolidCanvas of their height", "CanvasCache disabled"],
    "assumptions": ["representation invariant of ListBox (DESIGN section 5), re-established by every render"],
}

FRACTIONS = [(0, 1), (1, 2), (1, 3), (2, 3)]
OPS = ["render", "up", "down", "page up", "page down", "home", "end", "x", "click", "wheel_up", "wheel_down", "set_focus_above", "set_focus_below", "set_focus_none",
       "valign_top", "valign_bottom", "valign_middle", "resize", "insert", "delete", "replace"]


def instances(tier):
    q = tier == "quick"
    out = []
    for walker in ("focus", "simple"):
        for op in OPS:
            if q and walker == "simple" and op not in ("render", "down", "page up", "delete", "click"):
                continue
            out.append(Instance("%s.%s" % (walker, op.replace(" ", "_")), "h_listbox",
                                {"walker": walker, "op": op, "n": 3, "maxr": 2 if q else 3, "maxrow": 3 if q else 4}, timeout=900 if q else 2400))
    out.append(Instance("empty", "h_listbox", {"walker": "focus", "op": "render", "n": 0, "maxr": 3, "maxrow": 5}, timeout=300))
    out.append(Instance("one.down", "h_listbox", {"walker": "focus", "op": "down", "n": 1, "maxr": 3, "maxrow": 5}, timeout=300))
    return out


def _items(I, n, maxr):
    import urwid

    items = []
    for i in range(n):
        r = I.int("rows%d" % i, 0, maxr)
        sel = I.bool("sel%d" % i)
        I.axiom(Implies(sel, r >= 1)) if I.symbolic else None
        if not I.symbolic and sel and r < 1:
            I.assume(False)

        class Item(urwid.Widget):
            _sizing = frozenset([urwid.FLOW])

            def __init__(self, idx, rows, selectable):
                super().__init__()
                self.idx, self.r, self.sel = idx, rows, selectable
                self.canvs = []
                self.keys = []

            def selectable(self):
                return self.sel

            def rows(self, size, focus=False):
                return self.r

            def render(self, size, focus=False):
                c = urwid.SolidCanvas("abcdefg"[self.idx % 7], size[0], self.r)
                self.canvs.append(c)
                return c

            def keypress(self, size, key):
                self.keys.append(key)
                return key

            def __repr__(self):
                return "<Item %d>" % self.idx

        items.append(Item(i, r, sel))
    return items


def _window(canv, items):
    """[(item index or None, trim_top, rows)] read from the shards of the rendered canvas, top to bottom"""
    out = []
    if not hasattr(canv, "shards"):
        return [(None, 0, canv.rows())]  # a plain blank canvas (empty list)
    for nrows, cviews in canv.shards:
        cv = cviews[0]
        c = cv[5]
        idx = None
        for it in items:
            if any(c is x for x in it.canvs):
                idx = it.idx
        out.append((idx, cv[1], nrows))
    return out


def _check_window(I, lb, items, canv, maxrow, tag=""):
    import urwid

    I.check("canvas_rows" + tag, canv.rows() == maxrow)
    win = _window(canv, items)
    I.note("window" + tag, [(w[0], str(w[1]), str(w[2])) for w in win])
    I.check("rows_sum" + tag, ssum([w[2] for w in win]) == maxrow)
    win = [w for w in win if not (isinstance(w[2], int) and w[2] == 0)]  # zero-row shards carry nothing
    shown = [w for w in win if w[0] is not None]
    blanks_seen = False
    for k, (idx, trim, rows) in enumerate(win):
        if idx is None:
            blanks_seen = True
            continue
        I.check("no_blank_rows_above_an_item" + tag, not blanks_seen)
    by_idx = {it.idx: it for it in items}
    for k, (idx, trim, rows) in enumerate(shown):
        full = by_idx[idx].r
        I.check("rows_nonneg" + tag, rows >= 0)
        if k > 0:
            I.check("only_first_item_cut_at_top" + tag, trim == 0)
            prev = shown[k - 1][0]
            I.check("items_in_order" + tag, idx > prev)
            for j in range(prev + 1, idx):
                if j in by_idx:
                    I.check("no_item_skipped" + tag, by_idx[j].r == 0)
        if k < len(shown) - 1:
            I.check("only_last_item_cut_at_bottom" + tag, trim + rows == full)
        else:
            I.check("last_item_not_overdrawn" + tag, trim + rows <= full)
        I.check("trim_nonneg" + tag, trim >= 0)
    if blanks_seen and shown:
        # blank rows below only when everything above is already shown: first shown item is the first non-empty item, untrimmed, and the last is complete
        first = shown[0]
        I.check("blank_below_only_if_top_reached" + tag, And(first[1] == 0, *[by_idx[j].r == 0 for j in by_idx if j < first[0]]))
        last = shown[-1]
        I.check("blank_below_only_after_the_last_item" + tag, And(last[1] + last[2] == by_idx[last[0]].r, *[by_idx[j].r == 0 for j in by_idx if j > last[0]]))
    fw, fpos = lb.body.get_focus()
    if fw is not None:
        I.check("focus_row_visible" + tag, Implies(fw.r >= 1, Or(*[w[0] == fw.idx for w in shown]) if shown else False))
    # representation invariant after the render
    I.check("inv_offset_nonneg" + tag, lb.offset_rows >= 0)
    inum, iden = lb.inset_fraction
    I.check("inv_inset" + tag, And(inum >= 0, iden >= 1, inum < iden) if True else True)
    I.check("inv_exclusive" + tag, Or(lb.offset_rows == 0, inum == 0))


def h_listbox(I, walker, op, n, maxr, maxrow):
    import urwid
    from symx import uw

    uw.stub_cache(I)
    items = _items(I, n, maxr)
    W = urwid.SimpleFocusListWalker if walker == "focus" else urwid.SimpleListWalker
    body = W(list(items))
    lb = urwid.ListBox(body)
    cols = I.int("cols", 1)
    rows = I.int("maxrow", 1, maxrow)
    size = (cols, rows)
    if n:
        body.set_focus(int(I.int("focus", 0, n - 1)))
        lb.set_focus_pending = None
        off = I.int("offset_rows", 0)
        fr = I.choice("inset", FRACTIONS)
        I.assume(Or(off == 0, fr[0] == 0))
        lb.offset_rows = off
        lb.inset_fraction = fr
        # a selectable focus is what histories reach when any item is selectable; both cases explored
    if op == "render":
        canv = lb.render(size, True)
        _check_window(I, lb, items, canv, rows)
        return
    if op in ("up", "down", "page up", "page down", "home", "end", "x"):
        lb.render(size, True)
        f0 = lb.body.get_focus()[0]
        r = lb.keypress(size, op)
        I.check("key_result_is_none_or_the_key", r is None or r is op or r == op)
        canv = lb.render(size, True)
        _check_window(I, lb, items, canv, rows, "_after_key")
        f1 = lb.body.get_focus()[0]
        # (a ListBox may legitimately scroll onto unselectable items; nothing is asserted about selectability here)
        return
    if op in ("click", "wheel_up", "wheel_down"):
        canv0 = lb.render(size, True)
        win = _window(canv0, items)
        row = I.int("ev_row", 0, maxrow - 1)
        I.assume(row < rows)
        button = {"click": 1, "wheel_up": 4, "wheel_down": 5}[op]
        lb.mouse_event(size, "mouse press", button, 0, row, True)
        if op == "click":
            # which item is drawn on that row (row stays symbolic: the code forks on it only where it compares it)
            acc = 0
            fnow = lb.body.get_focus()[0]
            for idx, trim, nr in win:
                if idx is not None:
                    on_item = And(row >= acc, row < acc + nr)
                    I.check("click_on_selectable_item_focuses_it", Implies(And(on_item, items[idx].sel), fnow is items[idx]))
                acc = acc + nr
        canv = lb.render(size, True)
        _check_window(I, lb, items, canv, rows, "_after_mouse")
        return
    if op.startswith("set_focus"):
        lb.render(size, True)
        pos = int(I.int("new_focus", 0, n - 1))
        cf = {"set_focus_above": "above", "set_focus_below": "below", "set_focus_none": None}[op]
        lb.set_focus(pos, cf)
        canv = lb.render(size, True)
        I.check("focus_is_requested_item", lb.body.get_focus()[0] is items[pos])
        _check_window(I, lb, items, canv, rows, "_after_set_focus")
        return
    if op.startswith("valign"):
        lb.render(size, True)
        lb.set_focus_valign(op.split("_")[1])
        canv = lb.render(size, True)
        _check_window(I, lb, items, canv, rows, "_after_valign")
        return
    if op == "resize":
        lb.render(size, True)
        rows2 = I.int("maxrow2", 1, maxrow)
        canv = lb.render((cols, rows2), True)
        _check_window(I, lb, items, canv, rows2, "_after_resize")
        return
    # walker edits
    lb.render(size, True)
    idx = int(I.int("edit_index", 0, n - 1 if op != "insert" else n))
    if op == "insert":
        new = _items(I, 1, maxr)[0]
        new.idx = 9
        # keep indices comparable: re-number
        body.insert(idx, new)
    elif op == "delete":
        del body[idx]
    else:
        new = _items(I, 1, maxr)[0]
        body[idx] = new
    cur = list(body)
    for k, it in enumerate(cur):
        it.idx = k
    canv = lb.render(size, True)
    _check_window(I, lb, cur, canv, rows, "_after_edit")
