"""C12 - MainLoop delivers input in order and always restores the terminal (fault injection at a solver-chosen callback index)."""
from symx.api import Instance

META = {
    "level": "fault_enumeration",
    "bounds": {
        "session": "one chained script on a real pseudo-terminal: alarm -> keys 'a','b' (one read) -> alarm -> pipe write -> SIGWINCH resize -> "
                   "mouse press + key 'c' (one read) -> alarm -> key 'q' (the unhandled handler raises ExitMainLoop); each stage is triggered from a "
                   "callback of the previous one, so exactly one event source is pending at a time and the schedule is deterministic",
        "fault": "fault index f in [-1, 40] (every callback invocation of the session: input filter, keypress, mouse_event, unhandled handler, alarm, "
                 "pipe, render) x kind in {ExitMainLoop, ValueError}; f = -1 and f past the last invocation are the fault-free session",
        "widget": "whether the widget handles 'a', 'b', 'c' and the mouse press, and whether the filter drops 'b', are Booleans chosen by the solver",
        "loops": "select, asyncio, tornado, twisted (fresh SelectReactor), trio, zmq; pop_ups on/off; raw_display.Screen with hook_event_loop and "
                 "a subclass without it (MainLoop._run_screen_event_loop); bracketed paste and focus reporting on/off",
    },
    "outside": ["glib loop (gi is not installed)", "curses, lcd and web displays", "gpm mouse (no /usr/bin/mev)", "SIGTSTP/SIGCONT suspend cycle",
                "faults raised while MainLoop.start()/screen.start() run (no user callback runs there)", "several sources ready in the same loop iteration"],
    "stubs": ["none: the terminal is a real pty pair, signals and termios are the process's own"],
    "assumptions": ["the fault index, kind and widget behaviour are decided before run() starts (engine control exceptions must not travel through a reactor)"],
}

from ._loops import LOOPS
MAXF = 40


def instances(tier):
    q = tier == "quick"
    out = []
    for lp in LOOPS:
        for pop in (False, True):
            if q and pop and lp not in ("select", "asyncio"):
                continue
            out.append(Instance("%s.%s" % (lp, "popups" if pop else "plain"), "h_session",
                                {"loop": lp, "pop_ups": pop, "ext": True, "modes": True, "free_flags": not q}, timeout=1500))
    out.append(Instance("select.nomodes", "h_session", {"loop": "select", "pop_ups": False, "ext": True, "modes": False, "free_flags": not q}, timeout=1500))
    out.append(Instance("screenloop.plain", "h_session", {"loop": "select", "pop_ups": False, "ext": False, "modes": True, "free_flags": not q}, timeout=1500))
    return out


MODES = {1049: "alternate buffer", 1000: "mouse", 1002: "mouse", 1003: "mouse", 1006: "mouse", 2004: "bracketed paste", 1004: "focus reporting"}


def _mode_state(data):
    """Final DEC private mode state implied by a byte stream (True = set)."""
    import re

    st = {}
    for m in re.finditer(r"\x1b\[\?([0-9;]+)([hl])", data):
        for p in m.group(1).split(";"):
            st[int(p)] = m.group(2) == "h"
    ins = None
    for m in re.finditer(r"\x1b\[4([hl])", data):
        ins = m.group(1) == "h"
    return st, ins


def h_session(I, loop, pop_ups, ext, modes, free_flags, _attempt=1):
    import contextlib
    import fcntl
    import io
    import os
    import pty
    import signal
    import struct
    import termios
    import time

    import urwid
    from urwid.display.raw import Screen

    # ---- solver-chosen session parameters, fixed before the loop starts ------------------------------------------
    f = I.int("fault_index", -1, MAXF).__index__()
    kind_exit = bool(I.bool("fault_is_exit"))
    if free_flags:
        h_a, h_b, h_c, h_m = (bool(I.bool("handles_" + k)) for k in ("a", "b", "c", "mouse"))
        drop_b = bool(I.bool("filter_drops_b"))
    else:
        pat = I.choice("pattern", [(True, False, False, False, False), (False, True, True, True, False), (False, False, True, False, True)])
        h_a, h_b, h_c, h_m, drop_b = pat
    handles = {"a": h_a, "b": h_b, "c": h_c, "q": False}

    class Boom(ValueError):
        pass

    st = {"due": 0.0, "last_return": 0.0, "skipped_wait_checks": 0, "wait_checks": 0, "n": 0, "version": 0, "drawn": -1, "size": (10, 3), "filter_calls": 0, "fired": None, "mark": 0}
    log = []
    problems = []
    idle_problems = []
    m, s = pty.openpty()
    fcntl.ioctl(m, termios.TIOCSWINSZ, struct.pack("HHHH", 3, 10, 0, 0))
    inp = os.fdopen(os.dup(s), "r")

    class Out:
        def __init__(self):
            self.buf = []

        def write(self, d):
            self.buf.append(d if isinstance(d, str) else d.decode("latin-1"))

        def flush(self):
            pass

        def fileno(self):
            return s

        def isatty(self):
            return True

    out = Out()
    SIGS = (signal.SIGWINCH, signal.SIGTSTP, signal.SIGCONT)
    tio0 = termios.tcgetattr(s)
    sig0 = [signal.getsignal(x) for x in SIGS]

    if ext:
        scr_cls = Screen
    else:
        class NoHook(Screen):
            @property
            def hook_event_loop(self):
                raise AttributeError("hook_event_loop")

            @property
            def unhook_event_loop(self):
                raise AttributeError("unhook_event_loop")

        scr_cls = NoHook
    scr = scr_cls(input=inp, output=out, bracketed_paste_mode=modes, focus_reporting=modes)

    def bump():
        st["version"] += 1
        top._invalidate()

    def tick(what, stamp=True):
        """One callback invocation: the place where user code can fail."""
        idx = st["n"]
        st["n"] += 1
        if stamp:
            st["last_return"] = time.time()
        if idx == f:
            st["fired"] = what
            raise urwid.ExitMainLoop() if kind_exit else Boom("injected at %d (%s)" % (idx, what))

    DELAY, MARGIN = 0.02, 0.012

    def arm(cb):
        st["due"] = time.time() + DELAY
        ml.set_alarm_in(DELAY, cb)

    def from_wait(what):
        # an alarm that was still in the future when the previous callback returned: the loop had to block, so the
        # screen must by now show the current widget state.  (If the machine was so slow that the alarm was already
        # due, the loop need not have waited and nothing is required.)
        if st["due"] - st["last_return"] < MARGIN:
            st["skipped_wait_checks"] += 1
            return
        st["wait_checks"] += 1
        if st["drawn"] != st["version"]:
            problems.append("not_redrawn_before_wait:%s(drawn=%s,version=%s)" % (what, st["drawn"], st["version"]))
        else:
            shown = "".join(out.buf[st["mark"]:])
            if ("v%02d" % st["version"]) not in shown and st["mark"] >= 0:
                problems.append("drawn_bytes_missing:%s" % what)

    class Top(urwid.Widget):
        _sizing = frozenset(["box"])
        _selectable = True

        def render(self, size, focus=False):
            tick("render")
            if tuple(size) != st["size"]:
                problems.append("render_size:%r!=%r" % (size, st["size"]))
            st["drawn"] = st["version"]
            st["mark"] = len(out.buf)
            cols, rows = size
            line = ("v%02d" % st["version"]).ljust(cols)[:cols].encode()
            return urwid.TextCanvas([line] + [b" " * cols] * (rows - 1), maxcol=cols)

        def keypress(self, size, key):
            log.append(("key", key))
            tick("keypress")
            if tuple(size) != st["size"] and key != "window resize":
                problems.append("keypress_size:%r" % (size,))
            if handles.get(key, False):
                bump()
                return None
            return key

        def mouse_event(self, size, event, button, col, row, focus):
            log.append(("mouse", event, button, col, row))
            tick("mouse_event")
            if h_m:
                bump()
            return h_m

    def unhandled(k):
        log.append(("unh", k))
        tick("unhandled_input")
        if k == "q":
            st["fired"] = st["fired"] or "natural"
            raise urwid.ExitMainLoop()
        return False

    def a_keys(ml, data):
        from_wait("alarm1")
        tick("alarm")
        bump()
        os.write(m, b"ab")

    def a_pipe(ml, data):
        from_wait("alarm2")
        tick("alarm")
        bump()
        if ext:
            os.write(st["pipe"], b"p")
        else:
            do_resize()

    def do_resize():
        st["new_size"] = (12, 4)  # the loop learns about it from the 'window resize' input
        bump()
        fcntl.ioctl(m, termios.TIOCSWINSZ, struct.pack("HHHH", 4, 12, 0, 0))
        os.kill(os.getpid(), signal.SIGWINCH)

    def pipe_cb(data):
        log.append(("pipe", data))
        tick("pipe")
        do_resize()
        return True

    def a_mouse(ml, data):
        from_wait("alarm3")
        tick("alarm")
        bump()
        os.write(m, b"\x1b[M !!c")

    def a_quit(ml, data):
        from_wait("alarm4")
        tick("alarm")
        bump()
        os.write(m, b"q")

    def filt(keys, raw):
        if keys:
            log.append(("filter", tuple(keys)))
        # (the screen's own loop also calls the filter with no input when an alarm is due: not an input event)
        st["filter_calls"] += 1
        tick("input_filter", stamp=bool(keys))
        if "a" in keys:
            arm(a_pipe)
        elif "window resize" in keys:
            st["size"] = st["new_size"]
            arm(a_mouse)
        elif "c" in keys:
            arm(a_quit)
        if drop_b:
            keys = [k for k in keys if k != "b"]
        return keys

    # ---- the loop under test -----------------------------------------------------------------------------------
    from ._loops import make_loop

    el, close_loop = make_loop(urwid, loop)

    outcome = ml = None
    try:
        top = Top()
        ml = urwid.MainLoop(top, [], scr, handle_mouse=True, input_filter=filt, unhandled_input=unhandled, event_loop=el if ext else None, pop_ups=pop_ups)
        orig_idle = ml.entering_idle

        def checked_idle():
            # deterministic half of "redrawn before the loop next waits": whenever the loop announces it is about to
            # wait, MainLoop's idle callback leaves the screen showing the current widget state
            orig_idle()
            if scr.started and st["drawn"] != st["version"]:
                idle_problems.append("idle_did_not_redraw(drawn=%s,version=%s)" % (st["drawn"], st["version"]))

        ml.entering_idle = checked_idle
        if ext:
            st["pipe"] = ml.watch_pipe(pipe_cb)
        arm(a_keys)
        try:
            with contextlib.redirect_stdout(io.StringIO()):  # TwistedEventLoop prints sys.exc_info() of failing callbacks
                ml.run()
            outcome = ("returned",)
        except Boom as e:
            outcome = ("raised", "Boom", str(e))
        except Exception as e:  # noqa: BLE001
            outcome = ("raised", type(e).__name__, str(e)[:200])
        # ---- what is left behind ---------------------------------------------------------------------------------
        data = "".join(out.buf)
        modes_after, ins = _mode_state(data)
        tio1 = termios.tcgetattr(s)
        sig1 = [signal.getsignal(x) for x in SIGS]
        started = scr.started
    finally:
        for x, h in zip(SIGS, sig0):
            try:
                signal.signal(x, h if h is not None else signal.SIG_DFL)
            except (ValueError, TypeError):
                pass
        if scr.started:
            try:
                scr.stop()
            except Exception:  # noqa: BLE001
                pass
        for fd in (st.get("pipe"),):
            if fd is not None and ml is not None:
                try:
                    ml.remove_watch_pipe(fd)
                except Exception:  # noqa: BLE001
                    pass
                try:
                    os.close(fd)   # the write end belongs to the caller
                except OSError:
                    pass
        try:
            inp.close()
        except OSError:
            pass
        for fd in (m, s):
            try:
                os.close(fd)
            except OSError:
                pass
        close_loop()

    if problems and _attempt < 3 and all(p.startswith("not_redrawn_before_wait") or p.startswith("drawn_bytes_missing") for p in problems):
        # the timing-based half ("the alarm was still >= 12 ms away, so the loop had to block and therefore redraw") can be
        # upset by a descheduled process on a loaded machine: a session is only reported if it fails three times in a row
        return h_session(I, loop, pop_ups, ext, modes, free_flags, _attempt + 1)
    fired = st["fired"]
    I.note("session", {"loop": loop, "fault_index": f, "kind": "exit" if kind_exit else "error", "fired_in": fired, "callbacks": st["n"],
                       "outcome": outcome, "log": [list(x) for x in log][-12:], "problems": problems[:4], "attempt": _attempt, "wait_checks": st["wait_checks"], "skipped_wait_checks": st["skipped_wait_checks"]})
    # ---- exception contract ----------------------------------------------------------------------------------------
    I.check("session_terminates_by_fault_or_quit", fired is not None)
    if fired == "natural" or kind_exit:
        I.check("exit_main_loop_returns_normally", outcome == ("returned",))
    else:
        I.check("other_exception_propagates_unchanged", outcome is not None and outcome[:2] == ("raised", "Boom"))
    # ---- terminal restored -----------------------------------------------------------------------------------------
    I.check("screen_stopped", not started)
    I.check("alternate_buffer_left", modes_after.get(1049) is False)
    I.check("cursor_visible", modes_after.get(25, True) is True)
    I.check("mouse_reporting_off", not any(modes_after.get(k, False) for k in (1000, 1002, 1003, 1005, 1006, 1015)))
    I.check("bracketed_paste_off", not modes_after.get(2004, False))
    I.check("focus_reporting_off", not modes_after.get(1004, False))
    I.check("insert_mode_off", not ins)
    I.check("charset_shifted_in", data.rfind("\x0f") > data.rfind("\x0e"))
    I.note("termios_diff", [(i, str(a)[:80], str(b)[:80]) for i, (a, b) in enumerate(zip(tio0, tio1)) if a != b][:3])
    I.check("termios_restored", tio1 == tio0, info=[(i, a, b) for i, (a, b) in enumerate(zip(tio0, tio1)) if a != b][:3])
    I.check("signal_handlers_restored", sig1 == sig0)
    if modes:
        I.check("modes_were_switched_on", "\x1b[?2004h" in data and "\x1b[?1004h" in data and "\x1b[?1049h" in data)
    # ---- delivery order --------------------------------------------------------------------------------------------
    exp = []
    for batch in (("a", "b"), ("window resize",), (("mouse press", 1, 0, 0), "c"), ("q",)):
        exp.append(("filter", batch))
        for k in batch:
            if k == "b" and drop_b:
                continue
            if k == "window resize":
                continue
            if isinstance(k, str):
                exp.append(("key", k))
                if not handles[k]:
                    exp.append(("unh", k))
            else:
                exp.append(("mouse",) + k)
                if not h_m:
                    exp.append(("unh", k))
    obs = [x for x in log if x[0] != "pipe"]
    I.check("delivery_order_is_prefix_of_script", obs == exp[:len(obs)])
    if fired == "natural":
        I.check("fault_free_session_delivers_everything", obs == exp)
        I.check("pipe_data_delivered", (("pipe", b"p") in log) == bool(ext))
    I.check("redrawn_before_each_wait", not problems, info=problems[:3])
    I.check("idle_callback_redraws_current_state", not idle_problems, info=idle_problems[:3])
