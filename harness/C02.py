"""C02 - canvas composition is equivalent to operating on a plain grid of cells."""
from symx.api import And, Iff, Implies, Instance, Ite, Not, Or

META = {
    "bounds": {
        "trees": "operation trees of depth <= 2, and three depth-3 trees (a tall canvas beside a stack under a side trim / overlay; one in the quick tier), over combine, join (with padding), overlay, pad_trim_left_right, pad_trim_top_bottom, trim, trim_end, fill_attr_apply "
                 "and wrapping; leaves are abstract canvases yielding row descriptors; all column quantities (leaf widths, pads, trims, overlay offsets, the probed column) are "
                 "symbolic and unbounded, row quantities 1..3 (rows are enumerated by content())",
    },
    "outside": ["content_delta beyond the 11 catalogued (new, old) tree pairs over shared leaves", "TextCanvas leaves with symbolic text (concrete rows with wide characters and solver-chosen run boundaries, trims and offsets are covered by the textleaf instances)", "zero-width characters in leaves", "pop-up coordinates", "trees deeper than 3"],
    "stubs": ["canvas.blank_canvas -> abstract blank leaf (the real one materialises b''.rjust(cols))", "ALeafCanvas (abstract leaf whose content() yields (leaf, x0, y, width, attr map) descriptors)"],
    "assumptions": ["operations are applied where they are defined (trims smaller than the canvas, overlay inside the bottom canvas, join widths >= canvas widths)"],
}

TREES_Q = [
    ("padlr", ("padlr", "A")), ("padtb", ("padtb", "A")), ("trim", ("trim", "A")), ("trim_end", ("trim_end", "A")), ("attr", ("attr", "A")),
    ("combine", ("combine", "A", "B")), ("join", ("join", "A", "B")), ("overlay", ("overlay", "A", "B")),
    ("padlr_combine", ("padlr", ("combine", "A", "B"))), ("trim_join", ("trim", ("join", "A", "B"))), ("attr_overlay", ("attr", ("overlay", "A", "B"))),
    ("overlay_padlr", ("overlay", ("padlr", "A"), "B")), ("join_trim", ("join", ("trim", "A"), "B")), ("combine_padlr", ("combine", ("padlr", "A"), ("padlr", "B"))),
    ("attr_attr", ("attr", ("attr", "A"))), ("padtb_overlay", ("padtb", ("overlay", "A", "B"))), ("trim_end_combine", ("trim_end", ("combine", "A", "B"))),
    # a tall canvas beside a stack: later shards are entered by the tall one; then a side trim / an overlay across the shard boundary
    ("padlr_join_stack", ("padlr", ("join", "A", ("combine", "B", "C")))), ("padlr_join_stack_left", ("padlr", ("join", ("combine", "B", "C"), "A"))),
    ("overlay_join_stack", ("overlay", "D", ("join", "A", ("combine", "B", "C")))),
]
TREES_T = TREES_Q   # (four deeper trees - padlr(overlay(trim A, join(B, C))) and the like - did not finish in 30 minutes; the depth-3 trees that do are the *_stack ones)


def instances(tier):
    out = []
    for name, tree in (TREES_Q if tier == "quick" else TREES_T):
        if name in ("padlr_join_stack_left", "overlay_join_stack") and tier == "quick":
            continue  # (ten minutes each: thorough tier)
        kw = {"tree": tree, "maxrows": 2} if "_stack" in name else {"tree": tree}
        out.append(Instance("algebra.%s" % name, "h_algebra", kw, timeout=900 if tier == "quick" else 1500))
    for name, tree in TREES_Q[:8]:
        out.append(Instance("final.%s" % name, "h_final", {"tree": tree}, timeout=300))
    for name, new, old in DELTA_PAIRS:
        out.append(Instance("delta.%s" % name, "h_delta", {"new": new, "old": old}, timeout=900))
    for ti in range(len(TEXTS)):
        for op in ("padtrim", "overlay", "content"):
            out.append(Instance("textleaf.%s.t%d" % (op, ti), "h_textleaf", {"ti": ti, "op": op, "span": 2 if tier == "quick" else 3}, timeout=900))
    return out


# content_delta: (name, new tree, old tree) built over the same leaf canvases, independent symbolic parameters
DELTA_PAIRS = [
    ("same_join", ("join", "A", "B"), ("join", "A", "B")),
    ("join_other_right", ("join", "A", "B"), ("join", "A", "C")),
    ("join_swapped", ("join", "A", "B"), ("join", "B", "A")),
    ("combine_other_bottom", ("combine", "A", "B"), ("combine", "A", "C")),
    ("combine_other_top", ("combine", "A", "B"), ("combine", "C", "B")),
    ("overlay_moved", ("overlay", "A", "B"), ("overlay", "A", "B")),
    ("overlay_vs_plain", ("overlay", "A", "B"), ("padlr", "B")),
    ("padlr_moved", ("padlr", "A"), ("padlr", "A")),
    ("attr_changed", ("attr", ("join", "A", "B")), ("attr", ("join", "A", "B"))),
    ("nested", ("combine", ("join", "A", "B"), "C"), ("combine", ("join", "B", "A"), "C")),
    ("trim_combine", ("trim", ("combine", "A", "B")), ("combine", "A", "B")),
]

# real TextCanvas leaves: concrete rows with double-width characters, solver-chosen attribute / charset run boundaries, trims, pads and overlay offsets
TEXTS = ["x\u4e2dyz", "\u4e2d\u4e2d", "a\u4e2d", "\u4e2db", "ab\uff21c", "\u4e2da\u4e2d"]
CONT = ""


def _mk_leafclass():
    from urwid import canvas as cv

    class ALeafCanvas(cv.Canvas):
        def __init__(self, name, cols, rows):
            super().__init__()
            self.name, self._c, self._r = name, cols, rows

        def cols(self):
            return self._c

        def rows(self):
            return self._r

        def content(self, trim_left=0, trim_top=0, cols=None, rows=None, attr=None):
            if cols is None:
                cols = self._c
            if rows is None:
                rows = self._r
            for i in range(rows):
                yield [(self.name, trim_left, trim_top + i, cols, attr)]

        def content_delta(self, other):
            return self.content()

    return ALeafCanvas


MAPS = [{"A": "x"}, {"x": "y", "B": "x"}, {None: "n", "A": "B"}]


def _build(I, tree, ctr, leaves, Leaf):
    """returns (real canvas, reference)"""
    from urwid import canvas as cv
    from models import grid

    if isinstance(tree, str):
        if tree in leaves and isinstance(leaves[tree], tuple):
            return leaves[tree]          # shared leaf (content_delta compares canvases by identity)
        cols = I.int("cols_" + tree, 1)
        rows = int(I.int("rows_" + tree, 1, leaves.get("__maxrows__", 3)))
        lf = Leaf(tree, cols, rows)
        cur = None
        if tree == "A" and bool(I.bool("A_has_cursor")):
            cx = I.int("cx", 0)
            cy = int(I.int("cy", 0, 2))
            I.assume(And(cx < cols, cy < rows))
            lf.cursor = (cx, cy)
            cur = (cx, cy)
        leaves[tree] = lf
        return lf, grid.leaf(tree, cols, rows, cur)
    op = tree[0]
    ctr[0] += 1
    k = ctr[0]
    if op in ("padlr", "padtb", "trim", "trim_end", "attr"):
        c, r = _build(I, tree[1], ctr, leaves, Leaf)
        cc = cv.CompositeCanvas(c)
        if op == "padlr":
            l, rt = I.int("left%d" % k), I.int("right%d" % k)
            I.assume(And(l > -r.cols, rt > -r.cols, r.cols + l + rt >= 1))
            cc.pad_trim_left_right(l, rt)
            return cc, grid.pad_trim_lr(r, l, rt)
        if op == "padtb":
            t = int(I.int("top%d" % k, -2, 2))
            b = int(I.int("bottom%d" % k, -2, 2))
            I.assume(And(t > -r.rows, b > -r.rows, r.rows + t + b >= 1))
            cc.pad_trim_top_bottom(t, b)
            return cc, grid.pad_trim_tb(r, t, b)
        if op == "trim":
            t = int(I.int("trim%d" % k, 0, 2))
            I.assume(t < r.rows)
            use_count = bool(I.bool("trim_count%d" % k))
            cnt = None
            if use_count:
                cnt = int(I.int("count%d" % k, 1, 3))
                I.assume(t + cnt <= r.rows)
            if t == 0 and cnt is None:
                I.assume(False)
            cc.trim(t, cnt)
            return cc, grid.trim(r, t, cnt)
        if op == "trim_end":
            e = int(I.int("end%d" % k, 1, 2))
            I.assume(e < r.rows)
            cc.trim_end(e)
            return cc, grid.trim_end(r, e)
        m = dict(I.choice("map%d" % k, MAPS))
        cc.fill_attr_apply(m)
        return cc, grid.attr_apply(r, m)
    if op == "combine":
        parts = [_build(I, t, ctr, leaves, Leaf) for t in tree[1:]]
        # stacked canvases have equal widths (the container pads them beforehand)
        for c, r in parts[1:]:
            I.assume(r.cols == parts[0][1].cols)
        cc = cv.CanvasCombine([(c, None, i == 0) for i, (c, r) in enumerate(parts)])
        return cc, grid.combine([r for c, r in parts])
    if op == "join":
        parts = [_build(I, t, ctr, leaves, Leaf) for t in tree[1:]]
        items = []
        for i, (c, r) in enumerate(parts):
            w = I.int("joinw%d_%d" % (k, i), 1)
            I.assume(w >= r.cols)
            items.append((c, r, w))
        cc = cv.CanvasJoin([(c, None, i == 0, w) for i, (c, r, w) in enumerate(items)])
        return cc, grid.join([(r, w) for c, r, w in items])
    if op == "overlay":
        (tc, tr), (bc, br) = [_build(I, t, ctr, leaves, Leaf) for t in tree[1:]]
        left = I.int("ovl_left%d" % k, 0)
        top = int(I.int("ovl_top%d" % k, 0, 2))
        I.assume(And(left + tr.cols <= br.cols, top + tr.rows <= br.rows))
        cc = cv.CanvasOverlay(cv.CompositeCanvas(tc), bc, left, top)
        return cc, grid.overlay(tr, br, left, top)
    raise KeyError(op)


def _locate(row, x):
    """(leaf name | None, leaf x, leaf y, attr map) of the cell at column x of a descriptor row (forks on x)"""
    start = 0
    for d in row:
        name, x0, y, w, attr = d
        if bool(x < start + w):
            return (name, x0 + (x - start), y, attr)
        start = start + w
    return "beyond"


def h_algebra(I, tree, maxrows=3):
    from urwid import canvas as cv
    from models import grid
    from symx import uw

    Leaf = _mk_leafclass()
    uw._patch(cv, "blank_canvas", Leaf(None, 0, 0))  # abstract blank: content() yields descriptors instead of b''.rjust(cols)
    leaves = {"__maxrows__": maxrows}
    canv, ref = _build(I, tree, [0], leaves, Leaf)
    I.check("cols", canv.cols() == ref.cols)
    I.check("rows", canv.rows() == ref.rows)
    x = I.int("x", 0)
    I.assume(x < ref.cols)
    rows = list(canv.content())
    I.check("content_rows", len(rows) == ref.rows)
    for y, row in enumerate(rows):
        got = _locate(row, x)
        I.check("row_%d_covers_column" % y, got != "beyond")
        if got == "beyond":
            continue
        name, lx, ly, amap = got
        alts = ref.cell(x, y)
        conds = []
        for c, n, rx, ry, chain in alts:
            if n != name:
                continue
            if n is None:
                conds.append(c)
            else:
                same_attr = all(grid.apply_chain(chain, a) == ((amap or {}).get(a, a)) for a in ("A", "B", "C", "x", None))
                conds.append(And(c, lx == rx, ly == ry, same_attr))
        I.check("row_%d_cell_matches_grid" % y, Or(*conds) if conds else False)
    # cursor travels with its content
    cur = canv.cursor
    rc = ref.cursor
    if rc is not None:
        visible = And(rc[0] >= 0, rc[0] < ref.cols, rc[1] >= 0, rc[1] < ref.rows)
        # the cursor's cell must still show leaf A's cell under the cursor (not covered by an overlay / trimmed away)
        if cur is not None:
            I.check("cursor_translated", And(cur[0] == rc[0], cur[1] == rc[1]))


def _cell_matches(I, alts, name, lx, ly, amap):
    from models import grid

    conds = []
    for c, n, rx, ry, chain in alts:
        if n != name:
            continue
        if n is None:
            conds.append(c)
        else:
            same_attr = all(grid.apply_chain(chain, a) == ((amap or {}).get(a, a)) for a in ("A", "B", "C", "x", None))
            conds.append(And(c, lx == rx, ly == ry, same_attr))
    return Or(*conds) if conds else False


def h_delta(I, new, old):
    """content_delta(previous canvas): columns reported unchanged show the same cells in both canvases, the rest is the new content."""
    from urwid import canvas as cv
    from models import grid
    from symx import uw

    Leaf = _mk_leafclass()
    uw._patch(cv, "blank_canvas", Leaf(None, 0, 0))
    leaves = {}
    for nm in ("A", "B", "C"):
        cols = I.int("cols_" + nm, 1)
        rows = int(I.int("rows_" + nm, 1, 2))
        leaves[nm] = (Leaf(nm, cols, rows), grid.leaf(nm, cols, rows, None))
    cn, rn = _build(I, new, [0], leaves, Leaf)
    co, ro = _build(I, old, [100], leaves, Leaf)
    cn, co = cv.CompositeCanvas(cn), cv.CompositeCanvas(co)
    # the screen is redrawn with a delta only when its size did not change
    I.assume(And(rn.cols == ro.cols, rn.rows == ro.rows))
    x = I.int("x", 0)
    I.assume(x < rn.cols)
    rows = [list(r) for r in cn.content_delta(co)]
    I.check("delta_rows", len(rows) == rn.rows)
    nsame = 0
    for y, row in enumerate(rows):
        start = 0
        hit = None
        for seg in row:
            w = seg if isinstance(seg, int) or I.is_sym(seg) else seg[3]
            if bool(x < start + w):
                hit = seg
                break
            start = start + w
        I.check("delta_row_%d_covers_column" % y, hit is not None)
        if hit is None:
            continue
        if isinstance(hit, int) or I.is_sym(hit):
            nsame += 1
            # unchanged: the previous canvas shows exactly the same cell there
            pairs = []
            for c1, n1, x1, y1, m1 in rn.cell(x, y):
                for c2, n2, x2, y2, m2 in ro.cell(x, y):
                    if n1 != n2:
                        continue
                    same_attr = all(grid.apply_chain(m1, a) == grid.apply_chain(m2, a) for a in ("A", "B", "C", "x", None))
                    if not same_attr:
                        continue
                    pairs.append(And(c1, c2) if n1 is None else And(c1, c2, x1 == x2, y1 == y2))
            I.check("unchanged_cell_%d_equal_in_both" % y, Or(*pairs) if pairs else False)
        else:
            name, x0, ly, _w, amap = hit
            I.check("changed_cell_%d_is_new_content" % y, _cell_matches(I, rn.cell(x, y), name, x0 + (x - start), ly, amap))
    I.note("unchanged_cells_on_path", nsame)


def _snap(c):
    """structural snapshot of a composite canvas: shards (with canvas identities) and coords"""
    return ([(n, [(cvw[0], cvw[1], cvw[2], cvw[3], repr(cvw[4]), id(cvw[5])) for cvw in cviews]) for n, cviews in c.shards], sorted((k, v[:2]) for k, v in c.coords.items()))


def _snap_eq(a, b):
    def eq(x, y):
        if isinstance(x, (list, tuple)) and isinstance(y, (list, tuple)):
            if len(x) != len(y):
                return False
            return And(*[eq(p, q) for p, q in zip(x, y)])
        return x == y

    return eq(a, b)


def h_final(I, tree):
    """operands are left unchanged; a finalized canvas rejects modification"""
    from urwid import canvas as cv
    from symx import uw

    Leaf = _mk_leafclass()
    uw._patch(cv, "blank_canvas", Leaf(None, 0, 0))
    leaves = {}
    if tree[0] in ("combine", "join", "overlay"):
        parts = [_build(I, t, [10 * i], leaves, Leaf) for i, t in enumerate(tree[1:])]
        comps = [cv.CompositeCanvas(c) for c, r in parts]
        before = [_snap(c) for c in comps]
        if tree[0] == "combine":
            for c, r in parts[1:]:
                I.assume(r.cols == parts[0][1].cols)
            cv.CanvasCombine([(c, None, False) for c in comps])
        elif tree[0] == "join":
            cv.CanvasJoin([(c, None, False, c.cols()) for c in comps])
        else:
            I.assume(And(comps[0].cols() <= comps[1].cols(), comps[0].rows() <= comps[1].rows()))
            cv.CanvasOverlay(comps[0], comps[1], 0, 0)
        after = [_snap(c) for c in comps]
        I.check("operands_unchanged", _snap_eq(before, after))
    canv, ref = _build(I, tree, [0], {}, Leaf)
    canv = cv.CompositeCanvas(canv)
    canv.finalize(object(), (1,), False)
    for nm, f in (("pad_trim_left_right", lambda: canv.pad_trim_left_right(1, 1)), ("pad_trim_top_bottom", lambda: canv.pad_trim_top_bottom(1, 0)),
                  ("trim", lambda: canv.trim(0, 1)), ("fill_attr_apply", lambda: canv.fill_attr_apply({"A": "q"})), ("overlay", lambda: canv.overlay(cv.CompositeCanvas(Leaf("Z", 1, 1)), 0, 0))):
        try:
            f()
            I.check("finalized_rejects_" + nm, False)
        except cv.CanvasError:
            I.check("finalized_rejects_" + nm, True)


def _cells_expected(text, attr_at, cs_at, widths):
    row = []
    pos = 0
    for ch, w in zip(text, widths):
        n = len(ch.encode("utf-8"))
        row.append((ch, attr_at(pos), cs_at(pos)))
        if w == 2:
            row.append((CONT, attr_at(pos), cs_at(pos)))
        pos += n
    return row


def _grid_fix(row, wide):
    row = list(row)
    if row and row[0][0] == CONT:
        row[0] = (" ", row[0][1], None)
    if row and row[-1][0] in wide:
        row[-1] = (" ", row[-1][1], None)
    return row


def _cells_actual(rowsegs, wide):
    cells = []
    for a, cs, bs in rowsegs:
        for ch in bytes(bs).decode("utf-8"):
            cells.append((ch, a, cs))
            if ch in wide:
                cells.append((CONT, a, cs))
    return cells


def h_textleaf(I, ti, op, span):
    """A real TextCanvas row under pad/trim, overlay and content(trim_left, cols): cell-for-cell equal to the grid, halves become spaces."""
    import urwid
    from urwid import canvas as cv
    from urwid import str_util

    urwid.set_encoding("utf-8")
    text = TEXTS[ti]
    widths = [str_util.get_char_width(c) for c in text]
    wide = {c for c, w in zip(text, widths) if w == 2}
    raw = text.encode("utf-8")
    nb = len(raw)
    ncols = sum(widths)
    # run-length attribute and charset lists with solver-chosen boundaries (byte offsets)
    offs = [0]
    for ch in text:
        offs.append(offs[-1] + len(ch.encode("utf-8")))
    # run boundaries fall between characters (a run never splits a character's bytes)
    k1 = int(I.int("attr_boundary1", 0, len(text)))
    k2 = int(I.int("attr_boundary2", 0, len(text)))
    I.assume(k1 <= k2)
    n1, n2 = offs[k1], offs[k2] - offs[k1]
    attr = [(a, n) for a, n in (("a", n1), ("b", n2), ("c", nb - n1 - n2)) if n]
    m1 = offs[int(I.int("cs_boundary", 0, len(text)))] if bool(I.bool("has_cs")) else nb
    cs = [(c, n) for c, n in ((None, m1), ("0", nb - m1)) if n]

    def attr_at(p):
        return "a" if p < n1 else ("b" if p < n1 + n2 else "c")

    def cs_at(p):
        return None if p < m1 else "0"

    base = _cells_expected(text, attr_at, cs_at, widths)
    tc = cv.TextCanvas([raw], [attr], [cs])
    blank = (" ", None, None)
    if op == "padtrim":
        l = I.int("left", -ncols, span)
        r = I.int("right", -ncols, span)
        I.assume(And(l > -ncols, r > -ncols, ncols + l + r >= 1, Or(l >= 0, r >= 0, -l - r < ncols)))
        cc = cv.CompositeCanvas(tc)
        cc.pad_trim_left_right(l, r)
        rows = [list(x) for x in cc.content()]
        lv, rv = int(l), int(r)
        cut = base[max(0, -lv): len(base) - max(0, -rv)]
        exp = [blank] * max(0, lv) + _grid_fix(cut, wide) + [blank] * max(0, rv)
        I.check("cols", cc.cols() == len(exp))
    elif op == "overlay":
        tw = I.int("top_width", 1, ncols)
        left = I.int("ovl_left", 0, ncols)
        I.assume(left + tw <= ncols)
        top = cv.CompositeCanvas(cv.SolidCanvas("#", int(tw), 1))
        cc = cv.CanvasOverlay(top, cv.CompositeCanvas(tc), left, 0)
        rows = [list(x) for x in cc.content()]
        lv, twv = int(left), int(tw)
        exp = _grid_fix(base[:lv], wide) + [("#", None, None)] * twv + _grid_fix(base[lv + twv:], wide)
        I.check("cols", cc.cols() == ncols)
    else:
        tl = I.int("trim_left", 0, ncols - 1)
        cols = I.int("cols", 1, ncols)
        I.assume(tl + cols <= ncols)
        rows = [list(x) for x in tc.content(tl, 0, cols, 1)]
        tlv, cv_ = int(tl), int(cols)
        exp = _grid_fix(base[tlv: tlv + cv_], wide)
    I.check("one_row", len(rows) == 1)
    got = _cells_actual(rows[0], wide)
    I.note("cells", {"text": text, "attr": attr, "cs": cs, "got": [list(map(str, c)) for c in got], "expected": [list(map(str, c)) for c in exp]})
    I.check("cells_equal_grid", got == exp)
    I.check("no_empty_runs", all(len(bytes(seg[2])) > 0 for seg in rows[0]))
