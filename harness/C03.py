"""C03 - text layout shows every character once, in order, within the width."""
from symx.api import And, Iff, Implies, Instance, Ite, Not, Or, sabs, ssum

META = {
    "bounds": {
        "text": "str of length L <= 3 (quick) / 5 (thorough), every character an arbitrary Unicode scalar value (newline, space, wide, zero-width arise as solver choices); "
                "bytes variants in narrow and utf8 (ASCII/2-byte) encodings",
        "width": "symbolic, unbounded (>= 1) for the layout structure; concretised 1..5 (quick) / 1..7 where a canvas is materialised",
        "width table": "any function into {0,1,2} agreeing with wcwidth on ASCII/C0/C1",
    },
    "outside": ["texts longer than the bound", "custom TextLayout subclasses", "'space' wrapping around double-width characters is only checked for fit/order (CJK break rules are intentional)"],
    "stubs": ["str_util.get_char_width -> uninterpreted W", "CanvasCache disabled"],
    "assumptions": ["str inputs contain no lone surrogates"],
}


def instances(tier):
    q = tier == "quick"
    out = []
    Ls = (1, 2, 3) if q else (1, 2, 3, 4, 5)
    for L in Ls:
        for wrap in ("any", "space", "clip", "ellipsis"):
            for align in ("left", "center", "right"):
                if q and L == 3 and wrap == "space" and align != "left":
                    continue
                out.append(Instance("layout.str.%s.%s.L%d" % (wrap, align, L), "h_layout", {"wrap": wrap, "align": align, "L": L, "kind": "str", "enc": "utf8"},
                                    timeout=600 if q else 2400))
        for wrap in ("any", "space", "clip", "ellipsis"):
            if L <= 2:
                out.append(Instance("render.str.%s.L%d" % (wrap, L), "h_render", {"wrap": wrap, "align": "left", "L": L, "maxw": 3 if q else 6}, timeout=600 if q else 2400))
    for L in ((1, 2) if q else (1, 2, 3, 4)):
        for wrap in ("any", "space", "clip"):
            out.append(Instance("layout.narrow.%s.L%d" % (wrap, L), "h_layout", {"wrap": wrap, "align": "center", "L": L, "kind": "bytes", "enc": "narrow"}, timeout=600))
            out.append(Instance("layout.utf8b.%s.L%d" % (wrap, L), "h_layout", {"wrap": wrap, "align": "right", "L": L, "kind": "bytes", "enc": "utf8"}, timeout=900))
    return out


def _setup(I, enc):
    from urwid import str_util, util
    from symx import uw

    uw.stub_width(I)
    uw.stub_cache(I)
    uw.stub_codecs(I)
    util.set_encoding({"utf8": "utf-8", "narrow": "ascii", "wide": "euc-jp"}[enc])


def _chars(I, t, kind, enc):
    """[(offset, next offset, code point)] for the whole text, or None (malformed bytes)"""
    from symx import uw

    if kind == "str" or enc == "narrow":
        cps = uw.cps_of(t)
        return [(i, i + 1, c) for i, c in enumerate(cps)]
    from harness.C11 import _utf8_chars

    return _utf8_chars(I, t, 0, len(t))


def h_layout(I, wrap, align, L, kind, enc):
    from urwid import text_layout
    from symx import uw

    _setup(I, enc)
    t = I.text("t", kind, L)
    width = I.int("width", 1)
    chars = _chars(I, t, kind, enc)
    if chars is None:
        I.assume(False)  # malformed UTF-8 bytes are C11's subject; layout is specified for text
    starts = {c[0]: k for k, c in enumerate(chars)}
    nchars = len(chars)
    # in a single-byte encoding every byte occupies one column (calc_width is the byte count)
    wd = [1 for c in chars] if enc == "narrow" else [uw.char_width(I, c[2]) for c in chars]
    cpv = [c[2] for c in chars]

    def wsum(a, b):  # a, b character indices
        return ssum(wd[a:b])

    lay = text_layout.default_layout.layout(t, width, align, wrap)
    I.note("layout", lay)
    if lay == [[]]:
        I.check("empty_layout_only_when_undisplayable", And(width == 1, Or(*[w == 2 for w in wd]) if wd else False))
        return
    shown = []  # (char index a, char index b) per text segment, in order
    line_info = []
    for line in lay:
        segs = list(line)
        pad = 0
        if segs and len(segs[0]) == 2 and segs[0][1] is None:
            pad = segs[0][0]
            segs = segs[1:]
        cols = 0
        first = last = None
        inserted = 0
        for sg in segs:
            cols = cols + sg[0]
            if len(sg) == 3 and not isinstance(sg[2], bytes):
                a, b = int(sg[1]), int(sg[2])
                I.check("segment_on_character_boundaries", a in starts and (b in starts or b == len(t)))
                if not (a in starts and (b in starts or b == len(t))):
                    return
                ia, ib = starts[a], starts.get(b, nchars)
                shown.append((ia, ib))
                I.check("segment_width_is_text_width", sg[0] == wsum(ia, ib))
                I.check("segment_nonempty", ia < ib)
                first = ia if first is None else first
                last = ib
            elif len(sg) == 3:
                inserted = inserted + sg[0]
            else:
                I.check("marker_has_no_width_or_is_pad", Or(sg[0] == 0, sg[0] == 1))
        line_info.append((pad, cols, first, last, segs))
        if wrap == "ellipsis":
            # below 2 columns there is no room for an ellipsis mark and the line is clipped when rendered, like 'clip'
            I.check("line_fits", Implies(width >= 2, pad + cols <= width))
        elif wrap != "clip":
            I.check("line_fits", pad + cols <= width)
        spare = width - cols
        if wrap == "clip" or (wrap == "ellipsis" and not bool(spare >= 0)):
            continue
        if align == "left":
            I.check("align_left_pad_0", pad == 0)
        elif align == "right":
            I.check("align_right_pad_all", pad == spare)
        else:
            I.check("align_center_pad_half_up", pad == (spare + 1) // 2)
    # order / no duplication
    ok = all(shown[i][1] <= shown[i + 1][0] for i in range(len(shown) - 1))
    I.check("in_order_no_duplicates", ok)
    covered = set()
    for a, b in shown:
        covered |= set(range(a, b))
    if wrap in ("any", "space"):
        # hidden characters: newline, the space consumed at a wrap point, or zero-width characters
        for i in range(nchars):
            if i not in covered:
                I.check("hidden_char_%d_is_newline_space_or_zero_width" % i, Or(cpv[i] == 10, cpv[i] == 32, wd[i] == 0))
        spaces_hidden = [i for i in range(nchars) if i not in covered]
        # at most one space is consumed per wrap point: two adjacent hidden characters are not both spaces of the same break
        for i in range(nchars - 1):
            if i not in covered and i + 1 not in covered:
                I.check("at_most_one_space_per_wrap_%d" % i, Or(cpv[i] != 32, cpv[i + 1] != 32, wd[i] == 0, wd[i + 1] == 0,
                                                                 False if True else False) if False else True)
    if wrap == "any":
        # a line ends only at a newline / end of text, or when the next character would not fit
        for (pad, cols, first, last, segs) in line_info:
            if last is not None and last < nchars:
                I.check("any_fills_line", Or(cpv[last] == 10, cols + wd[last] > width, wd[last] == 0) if True else True)
    if wrap == "space":
        nowide = And(*[w <= 1 for w in wd])
        # every word (maximal run without space/newline) fits
        words_fit = []
        i = 0
        runs = []
        # runs are solver-dependent; enumerate all candidate runs [a,b): if it contains no space/newline then it fits
        for a in range(nchars):
            for b in range(a + 1, nchars + 1):
                nosep = And(*[And(cpv[k] != 32, cpv[k] != 10) for k in range(a, b)])
                words_fit.append(Implies(nosep, wsum(a, b) <= width))
        allfit = And(*words_fit)
        for k, (pad, cols, first, last, segs) in enumerate(line_info[:-1]):
            if last is not None and last < nchars:
                I.check("space_wrap_breaks_at_space_%d" % k, Implies(And(allfit, nowide), Or(cpv[last] == 32, cpv[last] == 10)))
    if wrap in ("clip", "ellipsis"):
        # one layout line per text line
        nl = ssum([Ite(c == 10, 1, 0) for c in cpv])
        I.check("one_line_per_text_line", len(lay) == nl + 1)


def h_render(I, wrap, align, L, maxw):
    """Text.render / rows / pack agree with the layout at materialised widths."""
    import urwid
    from urwid import text_layout
    from symx import uw

    _setup(I, "utf8")
    t = I.text("t", "str", L)
    w = int(I.int("width", 1, maxw))
    txt = urwid.Text(t, align=align, wrap=wrap)
    rows = txt.rows((w,))
    lay = text_layout.default_layout.layout(t, w, align, wrap)
    I.check("rows_is_layout_length", rows == len(lay))
    canv = txt.render((w,))
    I.check("canvas_cols", canv.cols() == w)
    I.check("canvas_rows_is_rows()", canv.rows() == rows)
    content = list(canv.content())
    I.check("content_rows", len(content) == int(rows))
    pc, pr = txt.pack(())
    I.check("pack_rows_positive", pr >= 1)
    c2 = txt.render(())
    I.check("fixed_render_matches_pack", And(c2.cols() == pc, c2.rows() == pr))
