"""C15 - the terminal emulator survives any output and tracks a VT100 faithfully."""
from symx.api import And, Iff, Implies, Instance, Ite, Not, Or

META = {
    "bounds": {
        "grid": "3x3, 1x1, 2x2 (quick); plus 1x3, 4x2, 2x4 (thorough); cells hold distinct tokens",
        "resize": "from an arbitrary valid state with 0 or 2 scroll-back lines of length 1 or maxw+1 each (lines that scrolled off at another width) to every size up to maxw x maxh",
        "state": "inductive step from an arbitrary valid state: cursor anywhere in the grid, any scrolling region, modes as symbolic Booleans, pending-wrap flag, "
                 "saved cursor, scroll-back view offset; all enumerated through the solver (indices are concretised by the list operations of the code)",
        "csi parameters": "0 .. max(w, h) + 2 per parameter (loops in insert_chars etc. run `n` times); 0-3 parameters",
        "byte streams": "1-2 fully symbolic bytes from the reset state and from an arbitrary parser state",
    },
    "outside": ["CSI parameters above the bound (CPU cost of huge counts)", "grids other than the listed ones", "streams of 3 or more symbolic bytes", "Terminal widget pty/fork plumbing", "OSC palette forms", "cursor addressing inside a restricted scrolling region / origin mode (urwid documents a simplified model)"],
    "stubs": ["Terminal widget replaced by a recorder (respond/beep/leds/set_title)"],
    "assumptions": ["representation invariant of TermCanvas (DESIGN section 5), re-proved after every step"],
}

GRIDS_Q = [(3, 3), (1, 1), (2, 2)]
CSI_MODEL = {b"@": "ich", b"A": "cuu", b"B": "cud", b"C": "cuf", b"D": "cub", b"G": "cha", b"H": "cup", b"J": "ed", b"K": "el", b"L": "il", b"M": "dl",
             b"P": "dch", b"X": "ech", b"d": "vpa", b"r": "decstbm"}


def instances(tier):
    q = tier == "quick"
    from urwid import vterm

    grids = GRIDS_Q if q else GRIDS_Q + [(1, 3), (4, 2), (2, 4)]
    out = []
    for w, h in grids:
        for ch in sorted(vterm.CSI_COMMANDS):
            out.append(Instance("csi.%s.%dx%d" % (ch.decode() if ch != b"`" else "bq", w, h), "h_csi", {"w": w, "h": h, "cmd": ch.decode("latin-1")}, timeout=600 if q else 1800))
        for cls in ("print", "cr", "lf", "bs", "other"):
            out.append(Instance("char.%s.%dx%d" % (cls, w, h), "h_char", {"w": w, "h": h, "cls": cls}, timeout=600 if q else 1800))
        out.append(Instance("resize.%dx%d" % (w, h), "h_resize", {"w": w, "h": h, "maxw": 4 if q else 6, "maxh": 4 if q else 5}, timeout=600 if q else 1800))
    for n in (1, 2):
        out.append(Instance("stream.n%d" % n, "h_stream", {"n": n, "w": 3, "h": 2, "utf8": False}, timeout=900 if q else 3000))
        out.append(Instance("stream.utf8.n%d" % n, "h_stream", {"n": n, "w": 3, "h": 2, "utf8": True}, timeout=900 if q else 3000))
    for ps in (1, 2, 3):
        out.append(Instance("parser.state%d" % ps, "h_parser", {"ps": ps, "w": 3, "h": 2}, timeout=900))
    out.append(Instance("scrollback", "h_scrollback", {"w": 2, "h": 3}, timeout=600))
    return out


class Recorder:
    def __init__(self, vterm):
        self.term_modes = vterm.TermModes()
        self.responses = []
        self.beeps = 0
        self.titles = []

    def respond(self, s):
        self.responses.append(s)

    def beep(self):
        self.beeps += 1

    def leds(self, which):
        pass

    def set_title(self, t):
        self.titles.append(t)

    def _emit(self, *a):
        pass


def _mk(I, w, h, sym_modes=True, sym_region=True):
    """A TermCanvas in an arbitrary valid state (representation invariant assumed)."""
    from urwid import vterm

    rec = Recorder(vterm)
    tc = vterm.TermCanvas(w, h, rec)
    tc.term = [[(None, None, bytes([65 + yy * w + xx])) for xx in range(w)] for yy in range(h)]
    x = int(I.int("x", 0, w - 1))
    y = int(I.int("y", 0, h - 1))
    tc.term_cursor = (x, y)
    top, bot = 0, h - 1
    if sym_region:
        top = int(I.int("top", 0, h - 1))
        bot = int(I.int("bot", 0, h - 1))
        I.assume(top <= bot)
    tc.scrollregion_start, tc.scrollregion_end = top, bot
    if sym_modes:
        # modes stay symbolic: the code forks on a mode only where it reads it
        tc.modes.autowrap = I.bool("autowrap")
        tc.modes.insert = I.bool("insert")
        tc.modes.constrain_scrolling = I.bool("origin")
        tc.modes.lfnl = I.bool("lfnl")
        tc.modes.visible_cursor = I.bool("visible_cursor")
        tc.is_rotten_cursor = I.bool("pending_wrap")
        I.assume(Implies(tc.is_rotten_cursor, x == w - 1))
        tc.has_focus = I.bool("has_focus")
    return tc, rec


def _invariant(I, tc, w, h, tag=""):
    I.check("grid_height" + tag, len(tc.term) == h)
    I.check("grid_rows_width" + tag, all(len(r) == w for r in tc.term))
    cx, cy = tc.term_cursor
    I.check("cursor_inside_grid" + tag, And(cx >= 0, cx < w, cy >= 0, cy < h))
    cur = tc.cursor
    if cur is not None:
        I.check("canvas_cursor_inside_canvas" + tag, And(cur[0] >= 0, cur[0] < w, cur[1] >= 0, cur[1] < h))
    I.check("scroll_region_inside_grid" + tag, And(tc.scrollregion_start >= 0, tc.scrollregion_start <= tc.scrollregion_end, tc.scrollregion_end <= h - 1))
    I.check("content_rows" + tag, len(list(tc.content())) == h)


def _chars(tc):
    return [[c[2] for c in row] for row in tc.term]


def h_csi(I, w, h, cmd):
    from urwid import vterm
    from models.vt100 import VT

    cmdb = cmd.encode("latin-1")
    tc, rec = _mk(I, w, h)
    spec = vterm.CSI_COMMANDS[cmdb]
    if isinstance(spec, vterm.CSIAlias):
        cmdb2 = spec.alias
    else:
        cmdb2 = cmdb
    real_spec = vterm.CSI_COMMANDS[cmdb2]
    nargs = int(I.int("nargs", 0, max(1, real_spec.num_args)))
    lim = max(w, h) + 2
    args = [int(I.int("arg%d" % i, 0, lim)) for i in range(nargs)]
    qmark = False
    if cmdb2 in (b"h", b"l"):
        qmark = bool(I.bool("qmark"))
        args = [int(I.choice("mode%d" % i, [1, 3, 4, 5, 6, 7, 20, 25, 0, 2, 1000])) for i in range(max(nargs, 1))]
    if cmdb2 == b"m":
        args = [int(I.choice("sgr%d" % i, [0, 1, 4, 5, 7, 10, 11, 12, 22, 24, 25, 27, 30, 37, 38, 39, 40, 47, 48, 49, 90, 97, 100, 107, 5, 2, 255])) for i in range(nargs)]
    x0, y0 = tc.term_cursor
    top, bot = tc.scrollregion_start, tc.scrollregion_end
    before = _chars(tc)
    model = VT(w, h, before, x0, y0, top, bot)
    # drive the real parser entry point for CSI: the parameter bytes are in escbuf, the final byte is dispatched
    tc.escbuf = (b"?" if qmark else b"") + b";".join(str(a).encode() for a in args)
    tc.parse_csi(cmdb)
    I.note("case", (cmd, args, (x0, y0), (top, bot)))
    _invariant(I, tc, w, h)
    name = CSI_MODEL.get(cmdb2)
    if name is None:
        if cmdb2 == b"n" and args[:1] == [6]:
            I.check("cpr_reply", rec.responses == ["\x1b[%d;%dR" % (y0 + 1, x0 + 1)])
        if cmdb2 == b"n" and args[:1] == [5]:
            I.check("dsr_reply", rec.responses == ["\x1b[0n"])
        if cmdb2 == b"c":
            I.check("da_reply", rec.responses == ["\x1b[?6c"])
        return
    a = (args + [0, 0])[:2]
    full = top == 0 and bot == h - 1
    if name in ("cuu", "cud", "cuf", "cub", "cha", "vpa", "cup"):
        if not full or bool(tc.modes.constrain_scrolling):
            return
        getattr(model, name)(*(a if name == "cup" else a[:1]))
        I.check("cursor_matches_vt100", tuple(tc.term_cursor) == (model.x, model.y))
        I.check("grid_untouched", _chars(tc) == before)
        return
    if name == "decstbm":
        if bool(tc.modes.constrain_scrolling):
            return
        model.decstbm(a[0], a[1])
        I.check("region_matches_vt100", (tc.scrollregion_start, tc.scrollregion_end) == (model.top, model.bot))
        I.check("cursor_matches_vt100", tuple(tc.term_cursor) == (model.x, model.y))
        I.check("grid_untouched", _chars(tc) == before)
        return
    if bool(tc.is_rotten_cursor) or bool(tc.modes.constrain_scrolling):
        return  # erase/insert/delete from the pending-wrap state or in origin mode: the model makes no claim
    if name in ("el", "ed") and a[0] > 2:
        I.check("unknown_erase_mode_ignored", _chars(tc) == before)
        return
    getattr(model, name)(a[0])
    I.check("grid_matches_vt100", _chars(tc) == model.g)
    I.check("cursor_row_unchanged", tc.term_cursor[1] == y0)
    if name in ("el", "ed", "ich", "dch", "ech"):
        I.check("cursor_unchanged", tuple(tc.term_cursor) == (x0, y0))


def h_char(I, w, h, cls):
    """One byte (printable or C0 control) through addbyte from an arbitrary state, parser idle."""
    from models.vt100 import VT

    tc, rec = _mk(I, w, h)
    b = I.int("byte", 0, 255)
    if cls == "print":
        I.assume(And(b >= 32, b < 127))
    elif cls == "cr":
        I.assume(b == 13)
    elif cls == "lf":
        I.assume(Or(b == 10, b == 11, b == 12))
    elif cls == "bs":
        I.assume(b == 8)
    else:
        I.assume(Or(b < 32, b >= 127))
        I.assume(And(b != 13, b != 10, b != 11, b != 12, b != 8))
    bb = int(b) if cls not in ("print", "other") else b
    x0, y0 = tc.term_cursor
    top, bot = tc.scrollregion_start, tc.scrollregion_end
    before = _chars(tc)
    for m in ("autowrap", "insert", "constrain_scrolling", "lfnl"):
        setattr(tc.modes, m, bool(getattr(tc.modes, m)))  # the model needs them: enumerate
    tc.is_rotten_cursor = pw = bool(tc.is_rotten_cursor)
    model = VT(w, h, before, x0, y0, top, bot, tc.modes.autowrap, tc.modes.insert, pw)
    nsb = len(tc.scrollback_buffer)
    if cls == "print":
        bb = int(I.choice("printable", [0x21, 0x7E]))  # two representative printable bytes (the cell token is the byte itself)
    tc.addbyte(bb)
    _invariant(I, tc, w, h)
    origin = tc.modes.constrain_scrolling
    if cls == "other" or origin:
        return
    if cls == "print":
        model.put(bytes([bb]))
    elif cls == "cr":
        model.cr()
    elif cls == "lf":
        if pw:
            return
        model.lf()
        if tc.modes.lfnl:
            model.cr()
    elif cls == "bs":
        if pw:
            return
        model.bs()
    I.check("grid_matches_vt100", _chars(tc) == model.g)
    I.check("cursor_matches_vt100", tuple(tc.term_cursor) == (model.x, model.y))
    if top == 0:  # (what happens to lines leaving a region that does not start at the top row is not specified)
        I.check("scrollback_gets_lines_scrolled_off_the_top", [[c[2] for c in r] for r in list(tc.scrollback_buffer)[nsb:]] == model.scrolled_off)


def h_resize(I, w, h, maxw, maxh):
    tc, rec = _mk(I, w, h, sym_modes=False)
    tc.has_focus = I.bool("has_focus")
    nw = int(I.int("new_w", 1, maxw))
    nh = int(I.int("new_h", 1, maxh))
    # lines that scrolled off while the terminal had another width are still in the scroll-back buffer
    nsb = I.choice("scrollback_lines", [0, 2])
    sb_lines = []
    for k in range(nsb):
        n = I.choice("scrollback_len%d" % k, [1, maxw + 1])
        line = [(None, None, bytes([65 + k])) for _ in range(n)]
        sb_lines.append(list(line))
        tc.scrollback_buffer.append(line)
    old_rows = [[c[2] for c in r] for r in tc.term]
    tc.resize(nw, nh)
    _invariant(I, tc, nw, nh)
    I.check("rows_have_the_new_width", all(len(r) == nw for r in tc.term) and len(tc.term) == nh)
    pulled = min(max(nh - h, 0), nsb)
    if pulled:
        # the most recent scroll-back lines come back on top, cut or padded to the new width
        back = sb_lines[nsb - pulled:]
        got = [[c[2] for c in r] for r in tc.term[:pulled]]
        exp = [([c[2] for c in ln] + [b" "] * nw)[:nw] for ln in back]
        I.check("scrollback_lines_return_in_order", got == exp, info=(got, exp))
    tc.addstr(b"x\n\ry")
    _invariant(I, tc, nw, nh, "_after_output")


def h_stream(I, n, w, h, utf8):
    """n arbitrary bytes from the reset state: never raises, invariant holds."""
    from urwid import util, vterm

    util.set_encoding("utf-8" if utf8 else "ascii")
    rec = Recorder(vterm)
    tc = vterm.TermCanvas(w, h, rec)
    if utf8:
        tc.modes.main_charset = vterm.CHARSET_UTF8
    data = [I.int("b%d" % i, 0, 255) for i in range(n)]
    tc.addstr(data)
    _invariant(I, tc, w, h)


def h_parser(I, ps, w, h):
    """One arbitrary byte from an arbitrary parser state."""
    from urwid import util, vterm

    util.set_encoding("ascii")
    rec = Recorder(vterm)
    tc = vterm.TermCanvas(w, h, rec)
    tc.within_escape = True
    tc.parsestate = ps
    if ps == 1:
        k = int(I.int("escbuf_len", 0, 2))
        qm = bool(I.bool("qmark"))
        body = [I.choice("e%d" % i, [48, 49, 59]) for i in range(k)]
        tc.escbuf = (b"?" if qm else b"") + bytes(body)
    elif ps == 2:
        k = int(I.int("escbuf_len", 0, 2))
        tc.escbuf = bytes([int(I.choice("o%d" % i, [48, 59, 0x41, 0xFF, 0x1B])) for i in range(k)])
    else:
        tc.escbuf = bytes([int(I.choice("mod", [0x25, 0x23, 0x28, 0x29]))])
    b = I.int("byte", 0, 255)
    tc.addbyte(b)
    _invariant(I, tc, w, h)
    I.check("parsestate_valid", Or(*[tc.parsestate == k for k in (0, 1, 2, 3)]))


def h_scrollback(I, w, h):
    """Lines scrolled off the top are kept in order and shown when the view is scrolled back."""
    from urwid import vterm

    rec = Recorder(vterm)
    tc = vterm.TermCanvas(w, h, rec)
    n = int(I.int("lines", 1, h + 3))
    for i in range(n):
        tc.addstr(bytes([65 + i]) + b"\r\n")
    all_lines = [bytes([65 + i]) for i in range(n)] + [b" "]
    sb = [r[0][2] for r in tc.scrollback_buffer]
    shown = [r[0][2] for r in tc.term]
    I.check("scrollback_plus_screen_is_output_in_order", (sb + shown)[: len(all_lines)] == all_lines[: len(sb + shown)] and len(sb) == max(0, n + 1 - h))
    up = int(I.int("scroll_up", 0, h + 3))
    tc.scroll_buffer(up=True, lines=up)
    view = [r[0][2] for r in tc.content()]
    k = min(up, len(sb))
    I.check("view_shows_scrolled_back_lines", view == (sb + shown)[len(sb) - k: len(sb) - k + h])
    _invariant(I, tc, w, h)
