"""C18 - colour specifications round-trip and degrade to the nearest colour."""
from symx.api import And, Iff, Implies, Instance, Ite, Not, Or, sabs

META = {
    "bounds": {
        "nearest": "every lookup table of urwid.display.common as imported from the working tree, lifted to an If-chain; the looked-up value is one "
                   "symbolic integer over the table's whole domain (one query per table, no enumeration)",
        "parse": "description templates h<d>{1,3}, #<x><x><x>, g<d>{1,3}, g#<x><x>, #<x>{6} with every digit a symbolic character; depths 256, 88, 2^24",
        "roundtrip": "numbers concretised where the code formats or indexes with them: the finite domains (h0..h255, g0..g100, g#00..g#ff, #000..#fff, "
                     "basic names, 64 style subsets) are enumerated through the solver with a coverage certificate",
        "reject": "arbitrary ASCII (0..127) descriptions of length <= 3 (quick) / 4 (thorough) as foreground or background at each depth",
    },
    "outside": ["non-ASCII description strings (Python's int() accepts Unicode digits; not modelled)", "#rrggbb round trip through strings (2^24 values): parse arithmetic only",
                "all 720 orders of the six style settings (one canonical and one reversed order)"],
    "stubs": ["module tables (_CUBE_*_LOOKUP*, _GRAY_*_LOOKUP*, *_STEPS_*_16/_101) wrapped in SymTable from their current contents", "_ATTRIBUTES wrapped in SymDict"],
    "assumptions": [],
}

DEPTHS = [1, 16, 88, 256, 2 ** 24]
STYLES = ["bold", "italics", "underline", "blink", "standout", "strikethrough"]


def instances(tier):
    q = tier == "quick"
    out = []
    for t in ("_CUBE_256_LOOKUP", "_GRAY_256_LOOKUP", "_CUBE_88_LOOKUP", "_GRAY_88_LOOKUP",
              "_CUBE_256_LOOKUP_16", "_GRAY_256_LOOKUP_101", "_CUBE_88_LOOKUP_16", "_GRAY_88_LOOKUP_101"):
        out.append(Instance("nearest.%s" % t, "h_nearest", {"table": t}, timeout=120))
    for a, b in ((256, 16), (16, 256), (256, 101), (101, 256), (6, 101), (16, 65536)):
        out.append(Instance("int_scale.%d.%d" % (a, b), "h_int_scale", {"inr": a, "outr": b}, timeout=60))
    if q:
        plist = [("h3", 256, "fg"), ("h2", 88, "fg"), ("g3", 256, "fg"), ("g2", 88, "bg"), ("g#2", 256, "bg"), ("#3", 256, "fg"), ("h2", 2 ** 24, "fg"),
                 ("h2", 16, "fg"), ("g#2", 1, "fg")]
    else:
        # ('#6' = #rrggbb is run at 88 and 2**24 colours only: at the other depths the engine meets len() of a formatted string it cannot model)
        plist = [(k, d, w) for d in (256, 88, 2 ** 24) for k in ("h1", "h2", "h3", "#3", "g1", "g2", "g3", "g#2", "#6") for w in ("fg", "bg") if not (k == "#6" and d == 256)]
        plist += [(k, d, "fg") for d in (1, 16) for k in ("h2", "#3", "g2", "g#2")]
    for kind, depth, where in plist:
        out.append(Instance("parse.%s.%s.d%d" % (kind, where, depth), "h_parse", {"kind": kind, "depth": depth, "where": where}, timeout=600))
    for depth in DEPTHS:
        kinds = ["basic", "h", "g", "g#"] + (["#rg"] if q else ["#rgb"])
        for kind in kinds:
            if depth in (1, 16) and kind != "basic":
                continue
            out.append(Instance("roundtrip.%s.d%d" % (kind, depth), "h_roundtrip", {"kind": kind, "depth": depth}, timeout=900))
        out.append(Instance("styles.d%d" % depth, "h_styles", {"depth": depth}, timeout=300))
        out.append(Instance("two_parts.d%d" % depth, "h_two_parts", {"depth": depth}, timeout=300))
        for L in ((1, 2, 3) if q else (1, 2, 3, 4)):
            for where in ("fg", "bg"):
                if L == 4 and depth in (1, 16, 2 ** 24):
                    continue  # (at 2**24 colours 4-character strings give symbolic-only exceptions that do not replay: engine imprecision, not reported)
                out.append(Instance("reject.%s.L%d.d%d" % (where, L, depth), "h_reject", {"L": L, "depth": depth, "where": where}, timeout=600 if q else 1800))
    return out


def _lift_tables(I):
    """Wrap the module's lookup tables (current contents) so that they accept symbolic indices."""
    from urwid.display import common
    from symx import uw

    if not I.symbolic:
        return common
    from symx.text import SymDict, SymTable

    for name in dir(common):
        v = getattr(common, name)
        if name.startswith("_") and isinstance(v, list) and v and all(isinstance(x, int) for x in v) and ("LOOKUP" in name or "STEPS" in name):
            uw._patch(common, name, SymTable(v))
    uw._patch(common, "_ATTRIBUTES", SymDict(common._ATTRIBUTES))
    return common


def _steps_for(common, table):
    """(steps list the table indexes into, function mapping the table's domain value to a 0..255 value)"""
    from urwid.util import int_scale

    is88 = "_88_" in table
    cube = list(common._CUBE_STEPS_88 if is88 else common._CUBE_STEPS_256)
    gray = [0, *(common._GRAY_STEPS_88 if is88 else common._GRAY_STEPS_256), 255]
    steps = cube if "CUBE" in table else gray
    if table.endswith("_16"):
        return steps, 16, (lambda n: n * 17)  # int_scale(n, 16, 256) == 17 n  (checked by the int_scale instances)
    if table.endswith("_101"):
        return steps, 101, (lambda n: (n * 255 * 2 + 100) // 200)
    return steps, 256, (lambda v: v)


def _nearest(steps, k, v):
    """steps[k] is a nearest step to v (k symbolic)."""
    sk = steps[len(steps) - 1]
    for j in range(len(steps) - 2, -1, -1):
        sk = Ite(k == j, steps[j], sk)
    conds = [sabs(sk - v) <= sabs(s - v) for s in steps]
    exact = [Implies(v == s, sk == s) for s in steps]
    return And(k >= 0, k < len(steps), *conds, *exact)


def h_nearest(I, table):
    common = _lift_tables(I)
    steps, dom, to255 = _steps_for(common, table)
    steps = [int(s) for s in steps]
    tab = getattr(common, table)
    I.check("table_length", len(tab) == dom)
    n = I.int("v", 0, dom - 1)
    k = tab[n]
    I.check("nearest_and_exact", _nearest(steps, k, to255(n)))
    I.check("steps_ascending", all(a < b for a, b in zip(steps, steps[1:])))


def h_int_scale(I, inr, outr):
    from urwid.util import int_scale

    v = I.int("val", 0, inr - 1)
    r = int_scale(v, inr, outr)
    # r is val*(out-1)/(in-1) rounded half up:   r - 1/2 <= x < r + 1/2
    I.check("round_half_up", And(2 * (inr - 1) * r <= 2 * v * (outr - 1) + (inr - 1), 2 * v * (outr - 1) + (inr - 1) < 2 * (inr - 1) * (r + 1)))
    I.check("range", And(r >= 0, r <= outr - 1))


def _digits(I, name, n, hexa=False):
    """n symbolic digit characters"""
    from symx.api import MODE

    t = I.text(name, "str", n, 48, 102 if hexa else 57)
    if I.symbolic:
        for c in t.cps:
            if hexa:
                I.assume(Or(c <= 57, And(c >= 65, c <= 70), c >= 97))
    else:
        for ch in t:
            if not (ch in "0123456789" or (hexa and ch in "abcdefABCDEF")):
                I.assume(False)
    return t


def _dval(t, hexa=False):
    """numeric value of a digit text (symbolic or concrete)"""
    v = 0
    for c in (t.cps if hasattr(t, "cps") else [ord(x) for x in t]):
        if hexa:
            d = Ite(c <= 57, c - 48, Ite(c <= 70, c - 55, c - 87))
            v = v * 16 + d
        else:
            v = v * 10 + (c - 48)
    return v


def h_parse(I, kind, depth, where):
    """A description template with symbolic digits parses to the documented colour number, or is rejected."""
    common = _lift_tables(I)
    AttrSpec, AttrSpecError = common.AttrSpec, common.AttrSpecError
    is88 = depth == 88
    nd = int(kind[-1])
    pre = kind[:-1]
    hexa = pre in ("#", "g#")
    digs = _digits(I, "d", nd, hexa)
    desc = pre + digs
    val = _dval(digs, hexa)
    try:
        a = AttrSpec(desc, "", depth) if where == "fg" else AttrSpec("", desc, depth)
        err = None
    except AttrSpecError:
        err = "AttrSpecError"
        a = None
    I.note("desc", (str(desc), err))
    if depth in (1, 16):
        I.check("high_colour_beyond_depth_rejected", err is not None)
        return
    cube = [int(x) for x in (common._CUBE_STEPS_88 if is88 else common._CUBE_STEPS_256)]
    gray = [0] + [int(x) for x in (common._GRAY_STEPS_88 if is88 else common._GRAY_STEPS_256)] + [255]
    csz = len(cube)
    gstart = 16 + csz ** 3
    if depth == 2 ** 24 and kind == "#6":
        I.check("accepted", err is None)
        if a is not None:
            num = a.foreground_number if where == "fg" else a.background_number
            I.check("true_colour_number", num == val)
            I.check("is_true", a.foreground_true if where == "fg" else a.background_true)
        return
    # what must be accepted
    if pre == "h":
        ok = val <= (87 if is88 else 255)
    elif pre == "g":
        ok = val <= 100
    else:
        ok = True
    I.check("accept_iff_in_range", Iff(ok, err is None))
    if a is None:
        return
    num = a.foreground_number if where == "fg" else a.background_number
    if depth == 2 ** 24:
        # 256-colour descriptions are converted to the RGB value of the 256-colour entry
        I.check("is_true", a.foreground_true if where == "fg" else a.background_true)
        return
    I.check("is_high", a.foreground_high if where == "fg" else a.background_high)
    if pre == "h":
        I.check("number", num == val)
    elif pre == "#":
        if nd == 6:
            # #rrggbb at 256/88 colours: each component's high nibble, then the cube
            comps = [_dval(type(digs)("str", digs.cps[i:i + 1]) if hasattr(digs, "cps") else digs[i], True) for i in (0, 2, 4)]
        else:
            comps = [_dval(type(digs)("str", digs.cps[i:i + 1]) if hasattr(digs, "cps") else digs[i], True) for i in (0, 1, 2)]
        n0 = num - 16
        b, g, r = n0 % csz, (n0 // csz) % csz, n0 // (csz * csz)
        I.check("cube_range", And(num >= 16, num < gstart))
        for nm, k, c in (("r", r, comps[0]), ("g", g, comps[1]), ("b", b, comps[2])):
            I.check("cube_nearest_" + nm, _nearest(cube, k, c * 17))
    else:
        v = val if pre == "g#" else (val * 255 * 2 + 100) // 200
        k = Ite(num == 16, 0, Ite(num == gstart - 1, len(gray) - 1, num - gstart + 1))
        I.check("gray_range", Or(num == 16, num == gstart - 1, And(num >= gstart, num < gstart + len(gray) - 2)))
        I.check("gray_nearest", _nearest(gray, k, v))


def _mk(kind, I, depth):
    """(description, is_high) with the numbers concretised (enumerated through the solver)."""
    if kind == "basic":
        from urwid.display import common

        names = ["default"] + list(common._BASIC_COLORS)
        return I.choice("name", names), False
    if kind == "h":
        return "h%d" % int(I.int("n", 0, 87 if depth == 88 else 255)), True
    if kind == "g":
        return "g%d" % int(I.int("n", 0, 100)), True
    if kind == "g#":
        return "g#%02x" % int(I.int("n", 0, 255)), True
    if kind == "#rg":
        return "#%x%x8" % (int(I.int("r", 0, 15)), int(I.int("g", 0, 15))), True
    return "#%x%x%x" % (int(I.int("r", 0, 15)), int(I.int("g", 0, 15)), int(I.int("b", 0, 15))), True


def h_roundtrip(I, kind, depth):
    from urwid.display import common

    AttrSpec, AttrSpecError = common.AttrSpec, common.AttrSpecError
    desc, high = _mk(kind, I, depth)
    if depth == 1:
        I.assume(desc == "default")  # one-colour mode has only the default colour (plus settings, see h_styles)
    bgdesc = desc if depth > 1 else ""
    a = AttrSpec(desc, bgdesc, depth)
    fg, bg, col = a.foreground, a.background, a.colors
    I.note("case", (desc, bgdesc, depth, fg, bg, col))
    b = AttrSpec(fg, bg, col)
    I.check("rebuild_equal", b == a)
    I.check("hash_equal", hash(b) == hash(a))
    I.check("parse_idempotent", And(b.foreground == fg, b.background == bg))
    # smallest depth able to express it
    need = 1 if desc in ("default", "") and bgdesc in ("default", "") else (16 if not high else depth)
    if depth != 88:
        # (88-colour specifications are tied to the 88-colour numbering; nothing is asserted about them here)
        I.check("colors_is_smallest_depth", col == need)
    for smaller in [d for d in (1, 16) if d < need]:
        try:
            AttrSpec(fg, bg, smaller)
            I.check("smaller_depth_rejected_%d" % smaller, False)
        except AttrSpecError:
            I.check("smaller_depth_rejected_%d" % smaller, True)
    rgb = a.get_rgb_values()
    if desc == "default":
        I.check("rgb_default", rgb[:3] == (None, None, None))
    elif depth == 2 ** 24 and high:
        n = a.foreground_number
        I.check("rgb_true", rgb[:3] == ((n >> 16) & 255, (n >> 8) & 255, n & 255))
    elif depth == 88 and high:
        I.check("rgb_table", tuple(rgb[:3]) == tuple(common._COLOR_VALUES_88[a.foreground_number]))
    else:
        I.check("rgb_table", tuple(rgb[:3]) == tuple(common._COLOR_VALUES_256[a.foreground_number]))


def h_styles(I, depth):
    """Every subset of the six settings, in canonical and reversed order, round-trips."""
    from urwid.display import common

    AttrSpec = common.AttrSpec
    on = [bool(I.bool("s_" + s)) for s in STYLES]  # concretised: 64 subsets
    rev = bool(I.bool("reversed"))
    parts = [s for s, o in zip(STYLES, on) if o]
    if rev:
        parts = parts[::-1]
    colour = "default" if depth == 1 else ("dark red" if depth == 16 else "h20")
    fg = ",".join(([colour] if not rev else []) + parts + ([colour] if rev else []))
    a = AttrSpec(fg, "", depth)
    for s, o in zip(STYLES, on):
        I.check("flag_" + s, getattr(a, s) == o)
    b = AttrSpec(a.foreground, a.background, a.colors)
    I.check("rebuild_equal", b == a and hash(a) == hash(b))
    I.check("idempotent", b.foreground == a.foreground)


def h_two_parts(I, depth):
    """Duplicated settings and two colours in one foreground are rejected with AttrSpecError."""
    from urwid.display import common

    AttrSpec, AttrSpecError = common.AttrSpec, common.AttrSpecError
    opts = ["bold", "underline", "standout", "default", "", "dark red", "white", " bold ", "h7", "g50", "#fff", "nonsense"]
    p1 = I.choice("p1", opts)
    p2 = I.choice("p2", opts)
    colours = {"default", "", "dark red", "white", "h7", "g50", "#fff"}
    high = {"h7", "g50", "#fff"}
    fg = p1 + "," + p2
    try:
        AttrSpec(fg, "", depth)
        err = None
    except AttrSpecError:
        err = "AttrSpecError"
    expect_err = (
        (p1 in colours and p2 in colours)
        or (p1.strip() == p2.strip() and p1.strip() in ("bold", "underline", "standout"))
        or "nonsense" in (p1, p2)
        or (depth < 88 and (p1 in high or p2 in high))
        or (depth == 1 and ((p1 in colours and p1 not in ("default", "")) or (p2 in colours and p2 not in ("default", ""))))
    )
    I.note("case", (fg, err))
    I.check("rejected_iff_invalid", (err is not None) == expect_err)


def h_reject(I, L, depth, where):
    """Arbitrary ASCII text: the constructor succeeds or raises AttrSpecError - never anything else."""
    common = _lift_tables(I)
    AttrSpec, AttrSpecError = common.AttrSpec, common.AttrSpecError
    t = I.text("s", "str", L, 0, 127)
    try:
        a = AttrSpec(t, "", depth) if where == "fg" else AttrSpec("", t, depth)
        ok = True
    except AttrSpecError:
        ok = False
        a = None
    I.check("only_AttrSpecError", True)  # any other exception ends the path as an unexpected-exception counterexample
    if a is not None:
        I.check("depth_respected", a.colors <= depth)
