"""Catalogue of container / decoration configurations over abstract children (shared by C01, C09, C19).

Each builder takes the input provider I and returns (widget, leaves, precondition-or-None).  Numeric options are
symbolic and unbounded unless a comment says otherwise; kinds / alignments / percentages / weights are concrete
parameters of the configuration (enumerated by `configs(tier)`)."""
from symx.api import And, Implies, Instance, Ite, Not, Or, sabs, smax, smin, ssum

PCT_Q = [0, 33, 50, 100]
PCT_T = [0, 1, 33, 50, 67, 99, 100]


def _uw():
    from symx import uw

    return uw


def _child(I, kind, name, sel=False):
    uw = _uw()
    return {"flow": uw.AFlow, "box": uw.ABox, "fixed": uw.AFixed}[kind](I, name, sel)


# ------------------------------------------------------------------------------------------------------------


def b_pile(I, kinds, weights=(), focus=0):
    """kinds: string over f(low, pack) F(low given as weight -> treated as flow in flow mode) g(iven box) w(eight box)."""
    import urwid

    spec, leaves = [], []
    ws = list(weights)
    for i, k in enumerate(kinds):
        if k == "f":
            ch = _child(I, "flow", "c%d" % i, sel=(i == focus))
            spec.append(("pack", ch))
        elif k == "x":
            ch = _child(I, "fixed", "c%d" % i, sel=False)
            spec.append(("pack", ch))
        elif k == "g":
            ch = _child(I, "box", "c%d" % i, sel=(i == focus))
            spec.append(("given", I.int("given%d" % i, 1), ch))
        else:
            ch = _child(I, "box", "c%d" % i, sel=(i == focus))
            spec.append(("weight", ws.pop(0), ch))
        leaves.append(ch)
    return urwid.Pile(spec, focus_item=focus), leaves, None


def b_columns(I, kinds, weights=(), focus=0, boxcols=(), child="box", nosel=False):
    """kinds over g(iven) p(ack fixed) w(eight).  child: 'box' (box mode) or 'flow' (flow mode; boxcols hold boxes)."""
    import urwid

    spec, leaves = [], []
    ws = list(weights)
    for i, k in enumerate(kinds):
        ck = "box" if (child == "box" or i in boxcols) else "flow"
        if k == "p":
            ch = _child(I, "fixed", "c%d" % i, sel=False)
            spec.append(("pack", ch))
        elif k == "g":
            ch = _child(I, ck, "c%d" % i, sel=(i == focus and not nosel))
            spec.append((I.int("given%d" % i, 1), ch))
        else:
            ch = _child(I, ck, "c%d" % i, sel=(i == focus and not nosel))
            spec.append(("weight", ws.pop(0), ch))
        leaves.append(ch)
    w = urwid.Columns(spec, dividechars=I.int("dividechars", 0), focus_column=focus, min_width=I.int("min_width", 1), box_columns=list(boxcols))
    return w, leaves, None


def b_frame(I, header, footer, focus="body"):
    import urwid

    body = _child(I, "box", "body", sel=True)
    h = _child(I, "flow", "hdr", sel=(focus == "header")) if header else None
    f = _child(I, "flow", "ftr", sel=(focus == "footer")) if footer else None
    w = urwid.Frame(body, h, f, focus_part=focus)
    return w, [x for x in (h, body, f) if x is not None], None


def _valign(I, va, pct):
    return ("relative", pct) if va == "relative" else va


def b_filler(I, hkind, valign, pct=None, hpct=None, minh=False):
    import urwid

    if hkind == "pack":
        ch = _child(I, "flow", "body", sel=True)
        height = "pack"
    elif hkind == "given":
        ch = _child(I, "box", "body", sel=True)
        height = I.int("height", 1)
    elif hkind == "givenflow":  # given height over a flow widget is documented: flow widget rendered then clipped/padded? (API allows)
        ch = _child(I, "flow", "body", sel=True)
        height = I.int("height", 1)
    else:
        ch = _child(I, "box", "body", sel=True)
        height = ("relative", hpct)
    w = urwid.Filler(ch, _valign(I, valign, pct), height, I.int("min_height", 0) if minh else None, I.int("top", 0), I.int("bottom", 0))
    return w, [ch], None


def b_padding(I, wkind, align, child, pct=None, wpct=None, minw=False):
    import urwid

    ch = _child(I, child, "body", sel=(child != "fixed"))
    if wkind == "pack":
        width = "pack"
    elif wkind == "clip":
        width = "clip"
    elif wkind == "given":
        width = I.int("width", 1)
    else:
        width = ("relative", wpct)
    al = ("relative", pct) if align == "relative" else align
    w = urwid.Padding(ch, al, width, I.int("min_width", 0) if minw else None, I.int("left", 0), I.int("right", 0))
    return w, [ch], None


def b_overlay(I, top, wkind, hkind, align, valign, apct=None, vpct=None, wpct=None, hpct=None, mins=False):
    import urwid

    t = _child(I, top, "top", sel=(top != "fixed"))
    b = _child(I, "box", "bottom")
    if wkind == "pack":
        width = "pack"
    elif wkind == "given":
        width = I.int("width", 1)
    else:
        width = ("relative", wpct)
    if hkind == "pack":
        height = "pack"
    elif hkind == "given":
        height = I.int("height", 1)
    else:
        height = ("relative", hpct)
    al = ("relative", apct) if align == "relative" else align
    va = ("relative", vpct) if valign == "relative" else valign
    w = urwid.Overlay(t, b, al, width, va, height,
                      min_width=I.int("min_width", 0) if mins else None, min_height=I.int("min_height", 0) if mins else None,
                      left=I.int("left", 0), right=I.int("right", 0), top=I.int("topm", 0), bottom=I.int("bottomm", 0))
    return w, [t, b], None


def b_linebox(I, child, sides="tblr", title=False, nosel=False):
    import urwid

    ch = _child(I, child, "body", sel=not nosel)
    kw = {}
    if "t" not in sides:
        kw.update(tline="", tlcorner="", trcorner="")
    if "b" not in sides:
        kw.update(bline="", blcorner="", brcorner="")
    if "l" not in sides:
        kw.update(lline="", tlcorner="", blcorner="")
    if "r" not in sides:
        kw.update(rline="", trcorner="", brcorner="")
    w = urwid.LineBox(ch, title="ti" if title else "", **kw)
    return w, [ch], None


def b_boxadapter(I):
    import urwid

    ch = _child(I, "box", "body", sel=True)
    return urwid.BoxAdapter(ch, I.int("height", 0)), [ch], None


def b_attrmap(I, child):
    import urwid

    ch = _child(I, child, "body", sel=(child != "fixed"))
    return urwid.AttrMap(ch, "a", "b"), [ch], None


def b_gridflow(I, n, vsep=1, focus=0, nosel=False):
    import urwid

    cells = [_child(I, "flow", "c%d" % i, sel=not nosel) for i in range(n)]
    w = urwid.GridFlow(cells, I.int("cell_width", 1), I.int("h_sep", 0), vsep, "left", focus=focus)
    return w, cells, None


def b_nested(I, outer):
    """Two-level nesting over concrete structure (the inductive argument does not need it; sanity of composition)."""
    import urwid

    a, b, c = _child(I, "flow", "a", True), _child(I, "flow", "b"), _child(I, "box", "c")
    if outer == "pile_cols":
        w = urwid.Pile([("pack", urwid.Columns([a, ("weight", 2, b)], dividechars=I.int("dividechars", 0))), ("weight", 1, c)])
    elif outer == "cols_pile":
        w = urwid.Columns([urwid.Pile([a, b]), (I.int("given", 1), urwid.Filler(_child(I, "flow", "d")))], box_columns=[1])
        return w, [a, b], None
    else:
        w = urwid.Frame(urwid.Filler(urwid.Padding(a, "center", ("relative", 50))), header=b)
        return w, [a, b], None
    return w, [a, b, c], None


BUILDERS = {
    "pile": b_pile, "columns": b_columns, "frame": b_frame, "filler": b_filler, "padding": b_padding, "overlay": b_overlay,
    "linebox": b_linebox, "boxadapter": b_boxadapter, "attrmap": b_attrmap, "gridflow": b_gridflow, "nested": b_nested,
}


def configs(tier):
    """[(name, builder key, kwargs)]"""
    q = tier == "quick"
    P = PCT_Q if q else PCT_T
    out = []
    # Pile
    for kinds, ws in (("f", ()), ("ff", ()), ("fgf", ()), ("fx", ()), ("w", (1,)), ("fw", (1,)), ("gww", (1, 2)), ("fwgw", (3, 1)), ("wfw", (2, 7))):
        for focus in ((0,) if q else range(len(kinds))):
            out.append(("pile.%s.f%d" % (kinds, focus), "pile", {"kinds": kinds, "weights": list(ws), "focus": focus}))
    # Columns (box children) and flow children with box columns
    for kinds, ws in (("w", (1,)), ("g", ()), ("p", ()), ("gw", (1,)), ("wgw", (1, 2)), ("pww", (3, 1)), ("gpg", ()), ("wwp", (2, 7))):
        for focus in (sorted({0, len(kinds) - 1}) if q else range(len(kinds))):
            out.append(("columns.box.%s.f%d" % (kinds, focus), "columns", {"kinds": kinds, "weights": list(ws), "focus": focus, "child": "box"}))
            out.append(("columns.flow.%s.f%d" % (kinds, focus), "columns", {"kinds": kinds, "weights": list(ws), "focus": focus, "child": "flow"}))
    out.append(("columns.flow.wgw.boxcol1", "columns", {"kinds": "wgw", "weights": [1, 2], "focus": 0, "child": "flow", "boxcols": [1]}))
    out.append(("columns.flow.gw.boxcol0", "columns", {"kinds": "gw", "weights": [1], "focus": 1, "child": "flow", "boxcols": [0]}))
    # Frame
    for h in (False, True):
        for f in (False, True):
            for focus in ["body"] + (["header"] if h else []) + (["footer"] if f else []):
                out.append(("frame.h%d.f%d.%s" % (h, f, focus), "frame", {"header": h, "footer": f, "focus": focus}))
    # Filler
    for va in ("top", "middle", "bottom"):
        out.append(("filler.pack.%s" % va, "filler", {"hkind": "pack", "valign": va}))
        out.append(("filler.given.%s" % va, "filler", {"hkind": "given", "valign": va}))
    for p in P:
        out.append(("filler.pack.rel%d" % p, "filler", {"hkind": "pack", "valign": "relative", "pct": p}))
        out.append(("filler.given.rel%d" % p, "filler", {"hkind": "given", "valign": "relative", "pct": p}))
        for va in ("top", "middle", "bottom"):
            out.append(("filler.rel%d.%s" % (p, va), "filler", {"hkind": "relative", "valign": va, "hpct": p}))
            out.append(("filler.rel%d.%s.min" % (p, va), "filler", {"hkind": "relative", "valign": va, "hpct": p, "minh": True}))
    # Padding
    for al in ("left", "center", "right"):
        for child in ("flow", "box"):
            out.append(("padding.given.%s.%s" % (al, child), "padding", {"wkind": "given", "align": al, "child": child}))
            for p in P:
                out.append(("padding.rel%d.%s.%s" % (p, al, child), "padding", {"wkind": "relative", "align": al, "child": child, "wpct": p}))
                if al == "center":
                    out.append(("padding.rel%d.%s.%s.min" % (p, al, child), "padding", {"wkind": "relative", "align": al, "child": child, "wpct": p, "minw": True}))
        out.append(("padding.given.%s.flow.min" % al, "padding", {"wkind": "given", "align": al, "child": "flow", "minw": True}))
        out.append(("padding.pack.%s.fixed" % al, "padding", {"wkind": "pack", "align": al, "child": "fixed"}))
        out.append(("padding.clip.%s.fixed" % al, "padding", {"wkind": "clip", "align": al, "child": "fixed"}))
        out.append(("padding.pack.%s.flow" % al, "padding", {"wkind": "pack", "align": al, "child": "flow"}))
    for p in P:
        out.append(("padding.given.rel%d.flow" % p, "padding", {"wkind": "given", "align": "relative", "child": "flow", "pct": p}))
    # Overlay
    for top, wk, hk in (("box", "given", "given"), ("box", "relative", "relative"), ("flow", "given", "pack"), ("flow", "relative", "pack"),
                        ("fixed", "pack", "pack"), ("box", "given", "relative"), ("box", "relative", "given")):
        for al, va in ((("center", "middle"),) if q else (("center", "middle"), ("left", "top"), ("right", "bottom"))):
            for p in ([50] if q else P):
                kw = {"top": top, "wkind": wk, "hkind": hk, "align": al, "valign": va}
                if wk == "relative":
                    kw["wpct"] = p
                if hk == "relative":
                    kw["hpct"] = p
                if "relative" not in (wk, hk) and p != ([50] if q else P)[0]:
                    break
                out.append(("overlay.%s.%s.%s.%s.%s.p%d" % (top, wk, hk, al, va, p), "overlay", kw))
    out.append(("overlay.box.given.given.rel.rel", "overlay", {"top": "box", "wkind": "given", "hkind": "given", "align": "relative", "valign": "relative", "apct": 33, "vpct": 67}))
    out.append(("overlay.box.rel.rel.center.middle.min", "overlay", {"top": "box", "wkind": "relative", "hkind": "relative", "align": "center", "valign": "middle", "wpct": 50, "hpct": 50, "mins": True}))
    # LineBox
    for child in ("flow", "box"):
        for sides in ("tblr", "tb", "lr", "t", "l", "") if not q else ("tblr", "lr", ""):
            out.append(("linebox.%s.%s" % (child, sides or "none"), "linebox", {"child": child, "sides": sides}))
        out.append(("linebox.%s.title" % child, "linebox", {"child": child, "sides": "tblr", "title": True}))
    out.append(("columns.flow.ww.nosel", "columns", {"kinds": "ww", "weights": [1, 1], "focus": 0, "child": "flow", "nosel": True}))
    out.append(("columns.flow.gw.boxcol0.nosel", "columns", {"kinds": "gw", "weights": [1], "focus": 1, "child": "flow", "boxcols": [0], "nosel": True}))
    out.append(("linebox.flow.lr.nosel", "linebox", {"child": "flow", "sides": "lr", "nosel": True}))
    out.append(("linebox.flow.tblr.nosel", "linebox", {"child": "flow", "sides": "tblr", "nosel": True}))
    out.append(("gridflow.n2.v0.nosel", "gridflow", {"n": 2, "vsep": 0, "nosel": True}))
    out.append(("boxadapter", "boxadapter", {}))
    out.append(("attrmap.flow", "attrmap", {"child": "flow"}))
    out.append(("attrmap.box", "attrmap", {"child": "box"}))
    out.append(("attrmap.fixed", "attrmap", {"child": "fixed"}))
    for n in (1, 2, 3):
        for vsep in (0, 1):
            out.append(("gridflow.n%d.v%d" % (n, vsep), "gridflow", {"n": n, "vsep": vsep}))
    for o in ("pile_cols", "cols_pile", "frame_fill_pad"):
        out.append(("nested.%s" % o, "nested", {"outer": o}))
    return out
