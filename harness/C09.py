"""C09 - cursor position and mouse hit-testing agree with what is drawn."""
from symx.api import And, Iff, Implies, Instance, Ite, Not, Or, smax, smin, ssum

META = {
    "bounds": {
        "geometry": "each container / decoration class around an abstract cursor leaf (free cursor inside its own area, solver-chosen answers to mouse_event and "
                    "move_cursor_to_coords); sizes, margins, given sizes, dividers and the event cell are unbounded symbolic integers; percentages / weights concrete",
    },
    "outside": ["ListBox (covered by C07's geometry)", "real Edit/SelectableIcon leaves (C10)", "sizes at which the leaf is clipped or hidden (the property's fit precondition)"],
    "stubs": ["ACursorLeaf (abstract widget implementing the cursor protocol)", "abstract siblings", "CanvasCache disabled"],
    "assumptions": ["fit precondition: the leaf's drawn area lies entirely inside the rendered canvas and its cursor is shown",
                    "counterexamples are replayed with the abstract leaf itself (a custom widget implementing the documented protocol), not with a bundled widget"],
}


def _configs(tier):
    q = tier == "quick"
    out = []
    for kinds in ("L", "fL", "Lf", "fLf", "gLw"):
        out.append(("pile.%s" % kinds, "pile", {"kinds": kinds}))
    for kinds in ("L", "gL", "Lw", "wLg", "gLg"):
        out.append(("columns.%s" % kinds, "columns", {"kinds": kinds}))
    # the leaf in a column / pile item that does NOT have the focus (focus on a selectable sibling S): its place is taken from
    # the container's own size calculation (C19 decides those), events and cursor moves must reach it with its own size
    for kinds in ("SL", "LS", "gSL"):
        out.append(("columns.unfocused.%s" % kinds, "columns", {"kinds": kinds, "unfocused": True}))
    for kinds in ("SL", "LS"):
        out.append(("pile.unfocused.%s" % kinds, "pile", {"kinds": kinds, "unfocused": True}))
    for h in (False, True):
        for f in (False, True):
            out.append(("frame.h%d.f%d" % (h, f), "frame", {"header": h, "footer": f}))
    for va in ("top", "middle", "bottom"):
        out.append(("filler.pack.%s" % va, "filler", {"hkind": "pack", "valign": va}))
        out.append(("filler.given.%s" % va, "filler", {"hkind": "given", "valign": va}))
    for al in ("left", "center", "right"):
        out.append(("padding.given.%s" % al, "padding", {"wkind": "given", "align": al}))
        out.append(("padding.rel50.%s" % al, "padding", {"wkind": "relative", "align": al}))
    for al, va in (("center", "middle"), ("left", "top"), ("right", "bottom")):
        out.append(("overlay.given.given.%s.%s" % (al, va), "overlay", {"align": al, "valign": va, "flow": False}))
        out.append(("overlay.given.pack.%s.%s" % (al, va), "overlay", {"align": al, "valign": va, "flow": True}))
    out.append(("boxadapter", "boxadapter", {}))
    out.append(("linebox.flow", "linebox", {"kind": "flow"}))
    out.append(("linebox.box", "linebox", {"kind": "box"}))
    out.append(("attrmap", "attrmap", {}))
    out.append(("gridflow.n2", "gridflow", {"n": 2}))
    return out


def instances(tier):
    out = []
    for name, key, kw in _configs(tier):
        for op in ("cursor", "mouse", "move"):
            if kw.get("unfocused") and op == "cursor":
                continue
            out.append(Instance("%s.%s" % (name, op), "h_geom", {"key": key, "kw": kw, "op": op}, timeout=300))
    return out


def _build(I, key, kw):
    import urwid
    from symx import uw

    if key == "pile":
        spec, leaf = [], None
        for i, k in enumerate(kw["kinds"]):
            if k == "L":
                box = len(kw["kinds"]) > 1 and "w" in kw["kinds"]
                leaf = uw.ACursorLeaf(I, "leaf", "flow")
                spec.append(("pack", leaf))
            elif k == "S":
                spec.append(("pack", uw.ACursorLeaf(I, "sib", "flow")))
            elif k == "f":
                spec.append(("pack", uw.AFlow(I, "s%d" % i)))
            elif k == "g":
                spec.append(("given", I.int("given%d" % i, 1), uw.ABox(I, "s%d" % i)))
            else:
                spec.append(("weight", 1, uw.ABox(I, "s%d" % i)))
        w = urwid.Pile(spec, focus_item=kw["kinds"].index("S" if kw.get("unfocused") else "L"))
        return w, leaf, ("box" if "w" in kw["kinds"] else "flow")
    if key == "columns":
        spec, leaf = [], None
        for i, k in enumerate(kw["kinds"]):
            if k == "L":
                leaf = uw.ACursorLeaf(I, "leaf", "flow")
                spec.append(("weight", 2, leaf))
            elif k == "S":
                spec.append(("weight", 1, uw.ACursorLeaf(I, "sib", "flow")))
            elif k == "g":
                spec.append((I.int("given%d" % i, 1), uw.AFlow(I, "s%d" % i)))
            else:
                spec.append(("weight", 1, uw.AFlow(I, "s%d" % i)))
        w = urwid.Columns(spec, dividechars=I.int("dividechars", 0), focus_column=kw["kinds"].index("S" if kw.get("unfocused") else "L"))
        return w, leaf, "flow"
    if key == "frame":
        leaf = uw.ACursorLeaf(I, "leaf", "box")
        w = urwid.Frame(leaf, uw.AFlow(I, "hdr") if kw["header"] else None, uw.AFlow(I, "ftr") if kw["footer"] else None)
        return w, leaf, "box"
    if key == "filler":
        if kw["hkind"] == "pack":
            leaf = uw.ACursorLeaf(I, "leaf", "flow")
            w = urwid.Filler(leaf, kw["valign"], "pack", None, I.int("top", 0), I.int("bottom", 0))
        else:
            leaf = uw.ACursorLeaf(I, "leaf", "box")
            w = urwid.Filler(leaf, kw["valign"], I.int("height", 1), None, I.int("top", 0), I.int("bottom", 0))
        return w, leaf, "box"
    if key == "padding":
        leaf = uw.ACursorLeaf(I, "leaf", "flow")
        width = I.int("width", 1) if kw["wkind"] == "given" else ("relative", 50)
        w = urwid.Padding(leaf, kw["align"], width, None, I.int("left", 0), I.int("right", 0))
        return w, leaf, "flow"
    if key == "overlay":
        leaf = uw.ACursorLeaf(I, "leaf", "flow" if kw["flow"] else "box")
        w = urwid.Overlay(leaf, uw.ABox(I, "bottom"), kw["align"], I.int("width", 1), kw["valign"], "pack" if kw["flow"] else I.int("height", 1),
                          left=I.int("left", 0), right=I.int("right", 0), top=I.int("topm", 0), bottom=I.int("bottomm", 0))
        return w, leaf, "box"
    if key == "boxadapter":
        leaf = uw.ACursorLeaf(I, "leaf", "box")
        return urwid.BoxAdapter(leaf, I.int("height", 1)), leaf, "flow"
    if key == "linebox":
        leaf = uw.ACursorLeaf(I, "leaf", kw["kind"])
        return urwid.LineBox(leaf), leaf, kw["kind"]
    if key == "attrmap":
        leaf = uw.ACursorLeaf(I, "leaf", "flow")
        return urwid.AttrMap(leaf, "a", "b"), leaf, "flow"
    if key == "gridflow":
        leaf = uw.ACursorLeaf(I, "leaf", "flow")
        cells = [leaf] + [uw.AFlow(I, "s%d" % i, True) for i in range(1, kw["n"])]
        return urwid.GridFlow(cells, I.int("cell_width", 1), I.int("h_sep", 0), 0, "left", focus=0), leaf, "flow"
    raise KeyError(key)


def _truthy(r):
    if r is None:
        return False
    if isinstance(r, bool):
        return r
    return r == True  # noqa: E712  (SymBool)


def h_geom(I, key, kw, op):
    import urwid
    from symx import uw

    uw.stub_cache(I)
    w, leaf, mode = _build(I, key, kw)
    cols = I.int("cols", 1)
    rows = I.int("rows", 1)
    size = (cols, rows) if mode == "box" else (cols,)
    canv = w.render(size, True)
    cur = canv.cursor
    I.assume(leaf.last_size is not None)
    lc, lr = leaf._dims(leaf.last_size)
    if kw.get("unfocused"):
        i = kw["kinds"].index("L")
        if key == "columns":
            widths = w.column_widths(size, True)
            I.assume(len(widths) == len(w.contents))
            ox, oy = ssum(widths[:i]) + i * w.dividechars, 0
        else:
            ox, oy = 0, ssum(w.get_item_rows(size, True)[:i])
    else:
        I.assume(cur is not None)
        ox, oy = cur[0] - leaf.cx, cur[1] - leaf.cy  # where the leaf's top-left corner is drawn
    # fit precondition: the leaf is drawn completely inside the canvas
    I.assume(And(ox >= 0, oy >= 0, ox + lc <= canv.cols(), oy + lr <= canv.rows(), lc >= 1, lr >= 1))
    if op == "cursor":
        del leaf.cursor_queries[:]
        rep = w.get_cursor_coords(size)
        # the child is asked with the size it is rendered with (its cursor may depend on that size)
        I.check("child_cursor_queried_with_its_render_size", all(q == leaf.last_size for q in leaf.cursor_queries))
        I.check("cursor_reported", rep is not None)
        if rep is not None:
            I.check("reported_cursor_equals_rendered_cursor", And(rep[0] == cur[0], rep[1] == cur[1]))
        return
    # no sibling hidden for lack of space (part of the fit precondition)
    if key == "columns":
        I.assume(And(*[x > 0 for x in w.column_widths(size, True)]))
        I.assume(len(w.column_widths(size, True)) == len(w.contents))
    if op == "move" and not hasattr(w, "move_cursor_to_coords"):
        I.check("not_part_of_this_widgets_protocol", True)
        return
    col = I.int("ev_col", 0)
    row = I.int("ev_row", 0)
    I.assume(And(col < canv.cols(), row < canv.rows()))
    inside = And(col >= ox, col < ox + lc, row >= oy, row < oy + lr)
    if op == "mouse":
        del leaf.events[:]
        r = w.mouse_event(size, "mouse press", 1, col, row, True)
        n = len(leaf.events)
        I.check("event_on_the_leaf_is_delivered_to_it", Implies(inside, n == 1))
        # (cells of the padding around the leaf may or may not be routed to it: the statement is silent)
        if n:
            sz, ev, b, c2, r2, f2 = leaf.events[0]
            I.check("delivered_coordinates_are_relative_to_the_leaf", Implies(inside, And(c2 == col - ox, r2 == row - oy)))
            I.check("delivered_with_the_render_size", sz == leaf.last_size)
            # (the value returned to the caller is not part of the statement; GridFlow, e.g., always answers True)
    else:
        del leaf.moved[:]
        r = w.move_cursor_to_coords(size, col, row)
        n = len(leaf.moved)
        if n:
            sz, c2, r2 = leaf.moved[-1]
            I.check("move_translated_row", Implies(inside, r2 == row - oy))
            I.check("move_translated_col", Implies(inside, c2 == col - ox))
            I.check("move_delivered_with_the_render_size", Implies(inside, sz == leaf.last_size))
            if bool(leaf.accept_move):
                I.check("accepted_move_succeeds", Implies(inside, _truthy(r)))
                rep = w.get_cursor_coords(size)
                if rep is not None:
                    I.check("cursor_on_requested_row_afterwards", Implies(inside, rep[1] == row))
            else:
                I.check("refused_move_fails", Implies(inside, Not(_truthy(r))))
        else:
            I.check("move_inside_the_leaf_reaches_it", Not(inside))
