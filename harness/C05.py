"""C05 - terminal input decodes to the same events however it is fragmented."""
from symx.api import And, Iff, Implies, Instance, Ite, Not, Or

META = {
    "bounds": {
        "stream": "N fully symbolic bytes: N <= 2 with an arbitrary first byte (N = 3 did not finish in 30 minutes); ESC- and CSI-prefixed streams of 2 further symbolic bytes (3 did not finish in 22 minutes); the thorough tier adds three mouse-report shapes and every 40-entry slice of the key table; "
                  "table-driven: every entry of input_sequences between one symbolic byte before and after; mouse / cursor reports with symbolic digit bytes",
        "cuts": "every cut point of the stream into two reads, timeout firing or not after the cut",
    },
    "outside": ["streams longer than the bound", "three or more fragments (two cuts)", "gpm mouse", "curses key codes > 255"],
    "stubs": ["escape._keyconv / input_trie.data wrapped in SymDict from their current contents", "Screen start-up bypassed (StubScreen)", "event loop absent: the completion timeout is modelled by calling parse_input(wait_for_more=False) on the pending codes, as Screen's own alarm callback does"],
    "assumptions": [],
}


def instances(tier):
    q = tier == "quick"
    out = []
    for enc in ("utf8", "narrow", "wide"):
        for n in (1, 2):
            out.append(Instance("any.%s.n%d" % (enc, n), "h_stream", {"enc": enc, "n": n, "prefix": []}, timeout=900 if q else 3000))
    for n in (2,):
        out.append(Instance("esc.utf8.n%d" % (n + 1), "h_stream", {"enc": "utf8", "n": n, "prefix": [27]}, timeout=900 if q else 3000))
        out.append(Instance("csi.utf8.n%d" % (n + 2), "h_stream", {"enc": "utf8", "n": n, "prefix": [27, 91]}, timeout=900 if q else 3000))
    if True:
        out.append(Instance("esc.wide.n3", "h_stream", {"enc": "wide", "n": 2, "prefix": [27]}, timeout=900))
    for shape in (["<d;d;dM", "<dd;d;ddm", "<d;dM", "<;;M", "<d;d;d;dM"] if q else ["<d;d;dM", "<dd;d;ddm", "<d;dM", "<;;M", "<d;d;d;dM", "<ddd;dd;dM", "<dM", "<d;;dM"]):
        out.append(Instance("sgrmouse.%s" % shape, "h_template", {"enc": "utf8", "shape": "\x1b[" + shape}, timeout=900))
    for shape in ("[d;dR", "[dd;dR", "[d;ddR", "[;dR", "[d;R"):
        out.append(Instance("cursorpos.%s" % shape, "h_template", {"enc": "utf8", "shape": "\x1b" + shape}, timeout=900))
    out.append(Instance("x10mouse", "h_template", {"enc": "utf8", "shape": "\x1b[Mbbb", "frag": False}, timeout=900))
    for start in (range(0, 400, 40) if not q else (0, 120, 240)):
        out.append(Instance("table.%d" % start, "h_table", {"enc": "utf8", "start": start, "symbefore": False}, timeout=1800))
    return out


def _setup(I, enc):
    from urwid import str_util, util
    from urwid.display import escape
    from symx import uw

    util.set_encoding({"utf8": "utf-8", "narrow": "ascii", "wide": "euc-jp"}[enc])
    if I.symbolic:
        from symx.text import SymDict, symdict_deep

        uw._patch(escape, "_keyconv", SymDict(escape._keyconv))
        uw._patch(escape.input_trie, "data", symdict_deep(escape.input_trie.data))
    return uw.make_screen(I)


def ev_eq(a, b):
    """symbolic equality of two decoded events"""
    if isinstance(a, tuple) or isinstance(b, tuple):
        if not (isinstance(a, tuple) and isinstance(b, tuple)) or len(a) != len(b):
            return False
        return And(*[ev_eq(x, y) for x, y in zip(a, b)])
    r = a == b
    return r


def evs_eq(xs, ys):
    if len(xs) != len(ys):
        return False
    return And(*[ev_eq(x, y) for x, y in zip(xs, ys)])


class Feed:
    """Drives the real Screen.parse_input the way get_available_raw_input + the input timeout do."""

    def __init__(self, scr):
        self.scr = scr
        self.events = []
        self.raw = 0

    def read(self, codes):
        codes = [*self.scr._partial_codes, *codes]
        self.scr._partial_codes = []
        if not codes:
            return
        dec, raw = self.scr.parse_input(None, None, codes, wait_for_more=True)
        self.events += dec
        self.raw += len(raw)

    def timeout(self):
        codes = self.scr._partial_codes
        self.scr._partial_codes = []
        if not codes:
            return
        dec, raw = self.scr.parse_input(None, None, codes, wait_for_more=False)
        self.events += dec
        self.raw += len(raw)


def _check_stream(I, enc, codes):
    n = len(codes)
    scr = _setup(I, enc)
    whole = Feed(scr)
    whole.read(codes)
    whole.timeout()
    I.note("whole", whole.events)
    I.check("whole_consumes_everything", whole.raw == n)
    I.check("nothing_pending_after_timeout", len(scr._partial_codes) == 0)
    I.check("at_least_one_event", len(whole.events) >= 1)
    for k in range(1, n):
        f = Feed(scr)
        f.read(codes[:k])
        f.read(codes[k:])
        f.timeout()
        I.check("fragmentation_invariant[%d]" % k, evs_eq(f.events, whole.events))
        I.check("fragmented_consumes_everything[%d]" % k, f.raw == n)
        # timeout fires after the cut: pending bytes decoded as they stand, nothing lost
        g = Feed(scr)
        g.read(codes[:k])
        g.timeout()
        g.read(codes[k:])
        g.timeout()
        I.check("timeout_loses_nothing[%d]" % k, g.raw == n)
        alone = Feed(scr)
        alone.read(codes[:k])
        alone.timeout()
        rest = Feed(scr)
        rest.read(codes[k:])
        rest.timeout()
        I.check("timeout_decodes_pending_as_it_stands[%d]" % k, evs_eq(g.events, alone.events + rest.events))


def h_stream(I, enc, n, prefix):
    codes = list(prefix) + [I.int("b%d" % i, 0, 255) for i in range(n)]
    _check_stream(I, enc, codes)


def h_template(I, enc, shape, frag=True):
    """shape: literal characters, 'd' = a symbolic decimal digit byte, 'b' = an arbitrary symbolic byte"""
    codes = []
    for i, ch in enumerate(shape):
        if ch == "d":
            codes.append(I.int("d%d" % i, 48, 57))
        elif ch == "b":
            codes.append(I.int("b%d" % i, 0, 255))
        else:
            codes.append(ord(ch))
    if frag:
        _check_stream(I, enc, codes)
    # protocol arithmetic of well-formed reports
    scr = _setup(I, enc)
    f = Feed(scr)
    f.read(codes)
    f.timeout()
    ev = f.events
    if shape == "\x1b[Mbbb":
        b, x, y = codes[3], codes[4], codes[5]
        I.check("x10_single_event", len(ev) == 1 and isinstance(ev[0], tuple))
        if len(ev) == 1 and isinstance(ev[0], tuple):
            I.check("x10_coordinates", And(ev[0][2] == (x - 33) % 256, ev[0][3] == (y - 33) % 256))
    fields = shape[3:-1].split(";") if shape.startswith("\x1b[<") else None
    if fields is not None and len(fields) == 3 and all(fields):
        I.check("sgr_single_event", len(ev) == 1 and isinstance(ev[0], tuple))
        if len(ev) == 1 and isinstance(ev[0], tuple):
            pos = 3
            vals = []
            for fl in fields:
                v = 0
                for _ in fl:
                    v = v * 10 + (codes[pos] - 48)
                    pos += 1
                pos += 1
                vals.append(v)
            I.check("sgr_coordinates", And(ev[0][2] == vals[1] - 1, ev[0][3] == vals[2] - 1))


def h_table(I, enc, start, symbefore=True):
    """Every entry of the escape-sequence table, between one symbolic byte before and one after."""
    from urwid.display import escape

    seqs = [(s, name) for s, name in escape.input_sequences if name not in ("mouse", "sgrmouse")]
    seqs = seqs[start:start + 40]
    if not seqs:
        I.check("empty_chunk", True)
        return
    k = I.int("entry", 0, len(seqs) - 1)
    seq, name = seqs[int(k)]
    before = I.int("before", 0, 255) if symbefore else 97
    after = I.int("after", 0, 255)
    # the byte before must not itself start a sequence that swallows the entry (ESC, or a multi-byte lead)
    I.assume(And(before != 27, before < 128))
    codes = [before, 27] + [ord(c) for c in seq] + [after]
    scr = _setup(I, enc)
    f = Feed(scr)
    f.read(codes)
    f.timeout()
    I.note("entry", (seq, name))
    I.check("entry_reported", len(f.events) >= 2 and ev_eq(f.events[1], name) is not False)
    if len(f.events) >= 2:
        # a longer table entry may legitimately match when `after` extends the sequence; otherwise the name is exact
        longer = [s for s, _n in escape.input_sequences if s.startswith(seq) and len(s) > len(seq)]
        ext = Or(*[after == ord(s[len(seq)]) for s in longer]) if longer else False
        I.check("entry_name", Or(ext, ev_eq(f.events[1], name)))
    _check_stream(I, enc, codes)
