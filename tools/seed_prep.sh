#!/bin/sh
# prep.sh <Cxx> <tag>
id=$1; tag=$2
git -C /repo worktree add -q --detach /tmp/wt/$tag HEAD
mkdir -p /tmp/wt/$tag-out
python3 - $id $tag <<'PY'
import json,sys
pid,tag=sys.argv[1:3]
for l in open('/verif/properties.jsonl'):
    d=json.loads(l)
    if d['id']==pid:
        open('/tmp/wt/%s-out/property.txt'%tag,'w').write("Title: %s\n\nStatement: %s\n\nQuantified over: %s\n\nWhy ordinary tests cannot settle it: %s\n\nAnchors: %s\n"%(d['title'],d['statement'],d['quantifier']['text'],d['why_tests_cant'],json.dumps(d['anchors'],indent=1)))
PY
