#!/bin/sh
# evalq.sh <Cxx> <tag>  : evaluate one seeded mutant under the repo lock, log to /tmp/wt/<tag>-out/eval.txt
P=$1; T=$2
flock /tmp/repo.lock /verif/tools/seed_eval.sh $P /tmp/wt/$T-out $T > /tmp/wt/$T-out/eval.txt 2>&1
cp /tmp/seed_check.txt /tmp/wt/$T-out/seed_check.txt 2>/dev/null
echo "$T done: $(tail -1 /tmp/wt/$T-out/eval.txt)" >> /tmp/wt/evals.txt
