#!/usr/bin/env python3
"""Regenerate the generated tables of DESIGN.md section 9 (fix table, open findings, seeded changes) from
known_findings.json and seeded/*/meta.json.  Text between <!-- GEN:<name> --> and <!-- /GEN:<name> --> is replaced."""
import glob
import json
import os
import re

ROOT = os.path.dirname(os.path.dirname(os.path.abspath(__file__)))


def fixes():
    d = json.load(open(os.path.join(ROOT, "known_findings.json")))
    rows = ["| property | commit | what failed |", "|---|---|---|"]
    for f in d["findings"]:
        if f["status"] != "fixed":
            continue
        s = f["summary"]
        s = re.sub(r"^fixed: property=C\d\d \w+ ", "", s).replace("|", "\\|")
        rows.append("| %s | `%s` | %s |" % (f["property"], f["commit"], s))
    return "\n".join(rows)


def open_findings():
    d = json.load(open(os.path.join(ROOT, "known_findings.json")))
    out = []
    for f in d["findings"]:
        if f["status"] == "fixed":
            continue
        out.append("* %s (`%s`) — %s.  Matched by instance `%s`, signature `%s`%s.  Not repaired because %s." % (
            f["property"], f["id"], f["summary"], f.get("instance", "*"), f.get("signature", "*"),
            (", input predicate `%s`" % f["input_pred"]) if f.get("input_pred") else "", f.get("why_not_fixed", "-")))
    return "\n".join(out) if out else "(none)"


def seeded():
    rows = ["| id | what it needs to manifest | caught by (quick tier) | needed strengthening? |", "|---|---|---|---|"]
    for p in sorted(glob.glob(os.path.join(ROOT, "seeded", "*", "meta.json"))):
        m = json.load(open(p))
        rows.append("| %s | %s | %s | %s |" % (m["id"], m["needs_to_manifest"].replace("|", "\\|")[:260], m.get("caught_by", m["property"]), m.get("strengthened", "")))
    return "\n".join(rows)


def main():
    p = os.path.join(ROOT, "DESIGN.md")
    s = open(p).read()
    for name, fn in (("fixes", fixes), ("open", open_findings), ("seeded", seeded)):
        pat = re.compile(r"(<!-- GEN:%s -->\n).*?(\n?<!-- /GEN:%s -->)" % (name, name), re.S)
        if not pat.search(s):
            raise SystemExit("marker %s missing" % name)
        s = pat.sub(lambda m: m.group(1) + fn() + '\n<!-- /GEN:%s -->' % name, s)
    open(p, "w").write(s)


if __name__ == "__main__":
    main()
