#!/bin/sh
# tools/seed_eval.sh <Cxx> <outdir-from-agent> [name]
# 1. confirm the seeded change in a scratch worktree (tests still pass, demo fails with / passes without)
# 2. run the property's quick check against /repo with the change applied, then undo it
set -u
P="$1"; OUT="$2"; NAME="${3:-$P-1}"
WT=/tmp/wt/eval-$NAME
git -C /repo worktree remove --force "$WT" >/dev/null 2>&1
git -C /repo worktree add -q --detach "$WT" HEAD || exit 2
echo "== demo on unmodified tree"; /venv/bin/python "$OUT/demo.py" "$WT" >/tmp/seed_demo0.txt 2>&1; D0=$?; echo "exit $D0"
git -C "$WT" apply "$OUT/patch.diff" || { echo "PATCH DOES NOT APPLY"; git -C /repo worktree remove --force "$WT"; exit 2; }
echo "== tests with change"; (cd "$WT" && PYTHONPATH="$WT" /venv/bin/python -m pytest -q -p no:cacheprovider --timeout=900 --continue-on-collection-errors 2>&1 | tail -1)
echo "== demo on modified tree"; /venv/bin/python "$OUT/demo.py" "$WT" >/tmp/seed_demo1.txt 2>&1; D1=$?; echo "exit $D1"; tail -3 /tmp/seed_demo1.txt
git -C /repo worktree remove --force "$WT"
echo "== check $P on /repo with the change applied"
git -C /repo apply "$OUT/patch.diff" || exit 2
cd /verif && ./check "$P" --no-evidence > /tmp/seed_check.txt 2>&1; RC=$?
git -C /repo checkout -- .
grep -c "^VIOLATION" /tmp/seed_check.txt; tail -2 /tmp/seed_check.txt | cut -c1-300
echo "RESULT $NAME demo_unmodified=$D0 demo_modified=$D1 check_exit=$RC"
