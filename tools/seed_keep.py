#!/usr/bin/env python3
"""tools/seed_keep.py <id> <property> <agent-outdir> <caught: yes|no> <needs...>"""
import json, os, shutil, sys
sid, prop, out, caught = sys.argv[1:5]
needs = " ".join(sys.argv[5:])
d = os.path.join("/verif/seeded", sid)
os.makedirs(d, exist_ok=True)
shutil.copy(os.path.join(out, "patch.diff"), d)
shutil.copy(os.path.join(out, "demo.py"), d)
if os.path.exists(os.path.join(out, "notes.md")):
    shutil.copy(os.path.join(out, "notes.md"), d)
sc = os.environ.get("SEED_CHECK", "/tmp/seed_check.txt")
res = open(sc).read().strip().splitlines()[-1] if os.path.exists(sc) else ""
json.dump({"id": sid, "property": prop, "needs_to_manifest": needs,
           "confirmed": "scratch worktree of /repo HEAD: pinned suite still 106 passed with the change; demo.py exits 1 with the change and 0 without (tools/seed_eval.sh)",
           "check_run": "git -C /repo apply patch.diff; ./check %s; git -C /repo checkout -- ." % prop,
           "caught_by_quick_check": caught == "yes", "check_summary": res}, open(os.path.join(d, "meta.json"), "w"), indent=1)
print("kept", d)
